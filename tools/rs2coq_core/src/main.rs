//! rs2coq_core — translate the core functions of `<repo>/src/lib.rs` (the free
//! functions `add_mod` / `sub_mod` and the inherent methods of
//! `CircularBuffer<N, T>`) into the monadic Gallina of `theories/Machine.v`.
//!
//! usage: rs2coq_core <repo> <out.v> [--only f,g,...] [--strict]
//!
//! `<out.v>` receives one `Definition gen_<f>` per translated function, in
//! dependency order; `<out.v>.json` a machine-readable summary. On stdout one
//! line per function: `translated fn <f> ...` or `skipped fn <f>: <reason>`.
//!
//! Exit status: 0 when every REQUIRED function (and, with --strict or --only,
//! every requested function) was translated; 1 otherwise (the reasons are on
//! stderr, each naming the function and the construct). A function that is not
//! understood completely is never emitted.

mod ir;
mod tr;

use ir::*;
use proc_macro2::Span;
use std::collections::{BTreeMap, HashMap, HashSet};
use std::fmt::Write as _;
use syn::spanned::Spanned;
use syn::{Item, Pat};
use tr::*;

const FREE: &[&str] = &["add_mod", "sub_mod"];

/// the functions that must translate (exit status 1 otherwise)
const REQUIRED: &[&str] = &[
    "add_mod", "sub_mod", "len", "capacity", "is_empty", "is_full", "inc_start", "dec_start", "inc_size",
    "dec_size", "front_maybe_uninit", "front_maybe_uninit_mut", "back_maybe_uninit", "back_maybe_uninit_mut",
    "get_maybe_uninit", "get_maybe_uninit_mut",
];

/// attempted as well; reported as skipped when not understood
const OPTIONAL: &[&str] = &[
    "back", "back_mut", "front", "front_mut", "get", "get_mut", "nth_front", "nth_front_mut", "nth_back",
    "nth_back_mut", "push_back", "try_push_back", "push_front", "try_push_front", "pop_back", "pop_front", "swap",
    "swap_remove_back", "swap_remove_front", "drop_range", "truncate_back", "truncate_front", "clear", "remove",
    "as_slices", "as_mut_slices", "slices_uninit_mut", "make_contiguous",
];

/// the name of the hand-written model of a function in theories/Buf.v
fn hand_name(f: &str) -> String {
    if f == "get" { "get_".into() } else { f.to_string() }
}

struct Src<'a> {
    sig: &'a syn::Signature,
    attrs: &'a [syn::Attribute],
    block: &'a syn::Block,
    span: Span,
    method: bool,
}

fn collect_idents(ts: proc_macro2::TokenStream, out: &mut HashSet<String>) {
    for t in ts {
        match t {
            proc_macro2::TokenTree::Ident(i) => {
                out.insert(i.to_string());
            }
            proc_macro2::TokenTree::Group(g) => collect_idents(g.stream(), out),
            _ => {}
        }
    }
}

fn norm_tokens(ts: impl quote::ToTokens) -> String {
    ts.to_token_stream().to_string().split_whitespace().collect::<Vec<_>>().join(" ")
}

/// is this `impl<const N: usize, T> CircularBuffer<N, T>` (inherent)?
fn is_buffer_impl(im: &syn::ItemImpl) -> bool {
    if im.trait_.is_some() {
        return false;
    }
    match &*im.self_ty {
        syn::Type::Path(p) => p.path.segments.last().map(|s| s.ident == "CircularBuffer").unwrap_or(false),
        _ => false,
    }
}

/// the signature of a function, in model types
fn signature(name: &str, s: &Src) -> Res<Sig> {
    for a in s.attrs {
        let p = a.path();
        if !(p.is_ident("inline") || p.is_ident("doc") || p.is_ident("must_use")) {
            return unsupported(&format!("attribute `{}`", norm_tokens(a)), a.span());
        }
    }
    let g = s.sig;
    if g.asyncness.is_some() || g.abi.is_some() || g.variadic.is_some() {
        return unsupported("async / extern / variadic function", g.span());
    }
    if !g.generics.params.is_empty() || g.generics.where_clause.is_some() {
        return unsupported("generic function", g.generics.span());
    }
    let mut params = vec![];
    let mut has_self = false;
    for a in &g.inputs {
        match a {
            syn::FnArg::Receiver(r) => {
                if !s.method || r.reference.is_none() || r.colon_token.is_some() {
                    return unsupported("receiver other than `&self` / `&mut self`", r.span());
                }
                has_self = true;
            }
            syn::FnArg::Typed(pt) => {
                if !pt.attrs.is_empty() {
                    return unsupported("attribute on a parameter", pt.span());
                }
                let n = match &*pt.pat {
                    Pat::Ident(pi) if pi.by_ref.is_none() && pi.mutability.is_none() && pi.subpat.is_none() => {
                        pi.ident.to_string()
                    }
                    other => return unsupported("parameter pattern", other.span()),
                };
                let t = type_of(&pt.ty)?;
                if t == Ty::Range {
                    // a range parameter is its two bounds
                    params.push((n, t));
                    continue;
                }
                if matches!(t, Ty::Unit | Ty::Ptr) || t.coq().is_err() {
                    return unsupported(&format!("parameter `{}` of type {}", n, t.show()), pt.ty.span());
                }
                params.push((n, t));
            }
        }
    }
    if s.method != has_self {
        return unsupported("associated function without a `self` receiver", g.span());
    }
    let ret = match &g.output {
        syn::ReturnType::Type(_, t) => type_of(t)?,
        syn::ReturnType::Default => Ty::Unit,
    };
    if ret.coq().is_err() {
        return unsupported(&format!("return type {}", ret.show()), g.output.span());
    }
    let _ = name;
    Ok(Sig { params, ret, method: s.method })
}

struct Done {
    text: String,
    lines: (usize, usize),
    calls: Vec<String>,
    ext_calls: Vec<String>,
    params: Vec<String>,
    ret: String,
}

enum Attempt {
    Ok(Done),
    Need(String, String),
    Fail(String),
}

fn attempt(
    name: &str,
    s: &Src,
    sigs: &HashMap<String, Sig>,
    done: &HashSet<String>,
    exts: &HashMap<&'static str, External>,
) -> Attempt {
    let sig = match sigs.get(name) {
        Some(s) => s.clone(),
        None => return Attempt::Fail("no usable signature".into()),
    };
    let mut used = HashSet::new();
    collect_idents(quote::ToTokens::to_token_stream(s.sig), &mut used);
    collect_idents(quote::ToTokens::to_token_stream(s.block), &mut used);
    let mut t = Tr {
        sigs,
        done,
        exts,
        used,
        counter: 0,
        ret_ty: sig.ret.clone(),
        method: sig.method,
        can_return: true,
        calls: Default::default(),
        ext_calls: Default::default(),
        need: None,
    };
    let mut env: Env = HashMap::new();
    let mut params = vec![];
    let mut nparam = 0;
    for a in &s.sig.inputs {
        if let syn::FnArg::Typed(pt) = a {
            if let Pat::Ident(pi) = &*pt.pat {
                let ty = sig.params[nparam].1.clone();
                nparam += 1;
                let cn = match t.coq_ident(&pi.ident) {
                    Ok(n) => n,
                    Err(e) => return Attempt::Fail(e),
                };
                if ty == Ty::Range {
                    let base = cn.trim_end_matches('\'').to_string();
                    let (a, b) = (format!("{}_start'", base), format!("{}_end'", base));
                    params.push(format!("({} : Z) ({} : Z)", a, b));
                    let v = Val {
                        tm: format!("({}, {})", a, b),
                        ty: Ty::Range,
                        atomic: true,
                        parts: Some(vec![Val::atom(a, Ty::Usize), Val::atom(b, Ty::Usize)]),
                        ptr_base: false,
                    };
                    env.insert(pi.ident.to_string(), v);
                    continue;
                }
                if env.insert(pi.ident.to_string(), Val::atom(cn.clone(), ty.clone())).is_some() {
                    return Attempt::Fail(format!("{}: duplicate parameter", at(pt.span())));
                }
                params.push(format!("({} : {})", cn, ty.coq().expect("checked in signature")));
            }
        }
    }
    let body = match t.block(&s.block.stmts, env, true) {
        Ok((b, _)) => b,
        Err(e) => {
            return match t.need.take() {
                Some(g) => Attempt::Need(g, e),
                None => Attempt::Fail(e),
            }
        }
    };
    if !body.ty().compat(&sig.ret) {
        return Attempt::Fail(format!(
            "{}: the body yields {}, expected {}",
            at(s.block.span()), body.ty().show(), sig.ret.show()
        ));
    }
    let body = simplify(body);
    let (a, b) = (s.span.start().line, s.span.end().line);
    let ret = sig.ret.coq().expect("checked in signature");
    let mut text = String::new();
    writeln!(text, "(* fn {}: src/lib.rs:{}-{} *)", name, a, b).unwrap();
    let ps = if params.is_empty() { String::new() } else { format!(" {}", params.join(" ")) };
    let rt = if ret.contains(' ') { format!("({})", ret) } else { ret.clone() };
    writeln!(text, "Definition gen_{}{} : M {} :=", name, ps, rt).unwrap();
    writeln!(text, "{}.", render(&body, 2)).unwrap();
    Attempt::Ok(Done {
        text,
        lines: (a, b),
        calls: t.calls.into_iter().collect(),
        ext_calls: t.ext_calls.into_iter().collect(),
        params: sig.params.iter().flat_map(|(_, t)| if *t == Ty::Range { vec!["Z".to_string(), "Z".into()] } else { vec![t.coq().unwrap()] }).collect(),
        ret,
    })
}

const PRELUDE: &str = "\
(* renderings of the std functions the source calls, in the vocabulary of Machine.v *)

(* core::mem::replace(dest, src) on a slot *)
Definition gen_mem_replace (p : Z) (e : elem) : M elem :=
  old <- read_slot p;;
  write_slot p e;;
  ret old.

(* core::ptr::swap_nonoverlapping(x, y, 1) on two slots *)
Definition gen_swap_nonoverlapping (p q : Z) : M unit :=
  f <- get_items;;
  set_items (s_swap f p q).

(* <[_]>::rotate_left(k) on the items array: panics when k > len *)
Definition gen_rotate_left (k : Z) : M unit :=
  n <- get_cap;;
  if k <=? n then f <- get_items;; set_items (s_rotate_left f n k) else panic PBounds.

";

fn json_str(s: &str) -> String {
    let mut o = String::from("\"");
    for c in s.chars() {
        match c {
            '"' => o.push_str("\\\""),
            '\\' => o.push_str("\\\\"),
            '\n' => o.push_str("\\n"),
            '\t' => o.push_str("\\t"),
            c if (c as u32) < 0x20 => write!(o, "\\u{:04x}", c as u32).unwrap(),
            c => o.push(c),
        }
    }
    o.push('"');
    o
}

fn json_list(v: &[String]) -> String {
    format!("[{}]", v.iter().map(|s| json_str(s)).collect::<Vec<_>>().join(", "))
}

/// the struct must be what the model's `cbuf` says it is
fn check_struct(file: &syn::File) -> Res<()> {
    for it in &file.items {
        if let Item::Struct(s) = it {
            if s.ident == "CircularBuffer" {
                let got = match &s.fields {
                    syn::Fields::Named(n) => n
                        .named
                        .iter()
                        .map(|f| format!("{}: {}", f.ident.as_ref().unwrap(), norm_tokens(&f.ty)))
                        .collect::<Vec<_>>(),
                    _ => vec![],
                };
                let want = ["size: usize", "start: usize", "items: [MaybeUninit < T > ; N]"];
                if got != want {
                    return Err(format!(
                        "{}: struct CircularBuffer has fields [{}], the model expects [{}]",
                        at(s.span()), got.join(", "), want.join(", ")
                    ));
                }
                if norm_tokens(&s.generics) != "< const N : usize , T >" {
                    return Err(format!("{}: struct CircularBuffer has unexpected generics", at(s.span())));
                }
                return Ok(());
            }
        }
    }
    Err("src/lib.rs: struct CircularBuffer not found".into())
}

/// `slice_assume_init_ref` / `_mut` are rendered as the identity: they must be
/// the element-type casts they are today
fn check_assume_init(file: &syn::File) -> Res<()> {
    let want: [(&str, &str, &str); 2] = [
        (
            "slice_assume_init_ref",
            "{ # [cfg (feature = \"unstable\")] { slice . assume_init_ref () } # [cfg (not (feature = \"unstable\"))] { & * (slice as * const [MaybeUninit < T >] as * const [T]) } }",
            "const unsafe fn slice_assume_init_ref < T > (slice : & [MaybeUninit < T >]) -> & [T]",
        ),
        (
            "slice_assume_init_mut",
            "{ # [cfg (feature = \"unstable\")] { slice . assume_init_mut () } # [cfg (not (feature = \"unstable\"))] { & mut * (slice as * mut [MaybeUninit < T >] as * mut [T]) } }",
            "unsafe fn slice_assume_init_mut < T > (slice : & mut [MaybeUninit < T >]) -> & mut [T]",
        ),
    ];
    for (name, body, sig) in want {
        let f = file
            .items
            .iter()
            .find_map(|it| match it {
                Item::Fn(f) if f.sig.ident == name => Some(f),
                _ => None,
            })
            .ok_or_else(|| format!("src/lib.rs: fn {} not found at the crate root", name))?;
        if norm_tokens(&f.block) != body || norm_tokens(&f.sig) != sig {
            return Err(format!(
                "{}: fn {} is no longer the plain cast the translator renders as the identity",
                at(f.span()), name
            ));
        }
    }
    Ok(())
}

/// the names to which the translator gives a fixed meaning must have it:
/// `mem`, `ptr`, `MaybeUninit`, `Range` are core's, and nothing at the crate
/// root redefines a prelude name or an assertion macro
fn check_names(file: &syn::File) -> Res<()> {
    fn leaves(t: &syn::UseTree, prefix: &str, out: &mut Vec<(String, String, Span)>) -> Res<()> {
        match t {
            syn::UseTree::Path(p) => leaves(&p.tree, &format!("{}{}::", prefix, p.ident), out),
            syn::UseTree::Name(n) => {
                out.push((n.ident.to_string(), format!("{}{}", prefix, n.ident), n.span()));
                Ok(())
            }
            syn::UseTree::Rename(r) => {
                out.push((r.rename.to_string(), format!("{}{}", prefix, r.ident), r.span()));
                Ok(())
            }
            syn::UseTree::Glob(g) => Err(format!(
                "{}: glob import `{}*` at the crate root (it could redefine any name the translator relies on)",
                at(g.span()), prefix
            )),
            syn::UseTree::Group(g) => {
                for x in &g.items {
                    leaves(x, prefix, out)?;
                }
                Ok(())
            }
        }
    }
    let mut decl: Vec<(String, String, Span)> = vec![];
    for it in &file.items {
        let (id, what) = match it {
            Item::Use(u) => {
                leaves(&u.tree, "", &mut decl)?;
                continue;
            }
            Item::Fn(f) => (Some(&f.sig.ident), "fn"),
            Item::Struct(x) => (Some(&x.ident), "struct"),
            Item::Enum(x) => (Some(&x.ident), "enum"),
            Item::Union(x) => (Some(&x.ident), "union"),
            Item::Const(x) => (Some(&x.ident), "const"),
            Item::Static(x) => (Some(&x.ident), "static"),
            Item::Type(x) => (Some(&x.ident), "type"),
            Item::Trait(x) => (Some(&x.ident), "trait"),
            Item::Mod(x) => (Some(&x.ident), "mod"),
            Item::Macro(m) => (m.ident.as_ref(), "macro"),
            Item::ExternCrate(x) => (Some(&x.ident), "extern crate"),
            _ => (None, ""),
        };
        if let Some(id) = id {
            decl.push((id.to_string(), format!("<{}>", what), id.span()));
        }
    }
    const FIXED: &[&str] = &[
        "Some", "None", "Ok", "Err", "Option", "Result", "usize", "bool", "T", "N", "assert", "debug_assert",
        "assert_eq", "assert_ne", "debug_assert_eq", "debug_assert_ne",
    ];
    let core_of: &[(&str, &[&str])] = &[
        ("mem", &["core::mem", "std::mem"]),
        ("ptr", &["core::ptr", "std::ptr"]),
        ("MaybeUninit", &["core::mem::MaybeUninit", "std::mem::MaybeUninit"]),
        ("Range", &["core::ops::Range", "std::ops::Range"]),
    ];
    for (name, path, sp) in &decl {
        if FIXED.contains(&name.as_str()) {
            return Err(format!("{}: the crate root declares `{}` ({}), a name the translator gives a fixed meaning", at(*sp), name, path));
        }
    }
    for (name, ok) in core_of {
        let here: Vec<_> = decl.iter().filter(|(n, _, _)| n == name).collect();
        if here.len() != 1 || !ok.contains(&here[0].1.as_str()) {
            return Err(format!(
                "src/lib.rs: `{}` must be imported exactly once, as {}; found [{}]",
                name, ok[0], here.iter().map(|(_, p, _)| p.clone()).collect::<Vec<_>>().join(", ")
            ));
        }
    }
    Ok(())
}

fn run() -> Res<i32> {
    let argv: Vec<String> = std::env::args().collect();
    let mut pos = vec![];
    let mut only: Option<Vec<String>> = None;
    let mut strict = false;
    let mut i = 1;
    while i < argv.len() {
        match argv[i].as_str() {
            "--strict" => strict = true,
            "--only" => {
                i += 1;
                let v = argv.get(i).ok_or("--only needs a list of functions")?;
                only = Some(v.split(',').filter(|s| !s.is_empty()).map(|s| s.to_string()).collect());
            }
            a if a.starts_with("--") => return Err(format!("unknown option {}", a)),
            a => pos.push(a.to_string()),
        }
        i += 1;
    }
    if pos.len() != 2 {
        return Err("usage: rs2coq_core <repo> <out.v> [--only f,g,...] [--strict]".into());
    }
    let repo = std::path::Path::new(&pos[0]);
    let lib = repo.join("src").join("lib.rs");
    let src = std::fs::read_to_string(&lib).map_err(|e| format!("cannot read {}: {}", lib.display(), e))?;
    let file = syn::parse_file(&src)
        .map_err(|e| format!("cannot parse {}: {} (line {})", lib.display(), e, e.span().start().line))?;

    check_struct(&file)?;
    check_names(&file)?;

    // where the functions are: free functions at the crate root, methods in the
    // inherent impl blocks of CircularBuffer; every name exactly once
    let all: Vec<&str> = REQUIRED.iter().chain(OPTIONAL.iter()).copied().collect();
    let mut found: HashMap<String, Vec<Src>> = HashMap::new();
    for it in &file.items {
        match it {
            Item::Fn(f) if all.contains(&f.sig.ident.to_string().as_str()) => {
                found.entry(f.sig.ident.to_string()).or_default().push(Src {
                    sig: &f.sig,
                    attrs: &f.attrs,
                    block: &f.block,
                    span: f.span(),
                    method: false,
                });
            }
            Item::Impl(im) if is_buffer_impl(im) => {
                for ii in &im.items {
                    if let syn::ImplItem::Fn(f) = ii {
                        if all.contains(&f.sig.ident.to_string().as_str()) {
                            found.entry(f.sig.ident.to_string()).or_default().push(Src {
                                sig: &f.sig,
                                attrs: &f.attrs,
                                block: &f.block,
                                span: f.span(),
                                method: true,
                            });
                        }
                    }
                }
            }
            _ => {}
        }
    }

    let requested: Vec<String> = match &only {
        Some(v) => {
            for n in v {
                if !all.contains(&n.as_str()) {
                    return Err(format!("--only: `{}` is not a function this tool knows", n));
                }
            }
            v.clone()
        }
        None => all.iter().map(|s| s.to_string()).collect(),
    };

    let mut skipped: BTreeMap<String, String> = BTreeMap::new();
    let mut srcs: HashMap<String, &Src> = HashMap::new();
    let mut sigs: HashMap<String, Sig> = HashMap::new();
    for n in &all {
        match found.get(*n).map(|v| v.as_slice()) {
            None | Some([]) => {
                skipped.insert(n.to_string(), "src/lib.rs: no such function".into());
            }
            Some([s]) => {
                if s.method == FREE.contains(n) {
                    skipped.insert(
                        n.to_string(),
                        format!("{}: expected a {}", at(s.span), if s.method { "free function" } else { "method" }),
                    );
                    continue;
                }
                match signature(n, s) {
                    Ok(sig) => {
                        sigs.insert(n.to_string(), sig);
                        srcs.insert(n.to_string(), s);
                    }
                    Err(e) => {
                        skipped.insert(n.to_string(), e);
                    }
                }
            }
            Some(v) => {
                skipped.insert(n.to_string(), format!("src/lib.rs: {} definitions", v.len()));
            }
        }
    }
    let uses_assume = |s: &Src| {
        let mut ids = HashSet::new();
        collect_idents(quote::ToTokens::to_token_stream(s.block), &mut ids);
        ids.contains("slice_assume_init_ref") || ids.contains("slice_assume_init_mut")
    };
    let assume_ok = check_assume_init(&file);

    let exts = externals();
    let mut done: HashSet<String> = HashSet::new();
    let mut order: Vec<(String, Done)> = vec![];
    let mut active: Vec<String> = vec![];

    fn ensure<'a>(
        name: &str,
        srcs: &HashMap<String, &Src<'a>>,
        sigs: &HashMap<String, Sig>,
        exts: &HashMap<&'static str, External>,
        done: &mut HashSet<String>,
        order: &mut Vec<(String, Done)>,
        skipped: &mut BTreeMap<String, String>,
        active: &mut Vec<String>,
        pre_check: &dyn Fn(&Src) -> Res<()>,
    ) -> bool {
        if done.contains(name) {
            return true;
        }
        if skipped.contains_key(name) {
            return false;
        }
        if active.iter().any(|a| a == name) {
            skipped.insert(name.to_string(), format!("recursion through {}", active.join(" -> ")));
            return false;
        }
        let s = match srcs.get(name) {
            Some(s) => *s,
            None => {
                skipped.insert(name.to_string(), "not found".into());
                return false;
            }
        };
        if let Err(e) = pre_check(s) {
            skipped.insert(name.to_string(), e);
            return false;
        }
        active.push(name.to_string());
        let ok = loop {
            match attempt(name, s, sigs, done, exts) {
                Attempt::Ok(d) => {
                    done.insert(name.to_string());
                    order.push((name.to_string(), d));
                    break true;
                }
                Attempt::Need(g, msg) => {
                    // a callee with a hand-written stand-in may stay untranslated
                    if !ensure(&g, srcs, sigs, exts, done, order, skipped, active, pre_check) {
                        let why = skipped.get(&g).cloned().unwrap_or_default();
                        skipped.insert(
                            name.to_string(),
                            format!("{} -- and `{}` was not translated: {}", msg, g, why),
                        );
                        break false;
                    }
                }
                Attempt::Fail(e) => {
                    skipped.insert(name.to_string(), e);
                    break false;
                }
            }
        };
        active.pop();
        ok
    }

    let pre_check = |s: &Src| -> Res<()> {
        if uses_assume(s) {
            assume_ok.clone()
        } else {
            Ok(())
        }
    };
    for n in &requested {
        ensure(n, &srcs, &sigs, &exts, &mut done, &mut order, &mut skipped, &mut active, &pre_check);
    }
    // with --only, functions that were not requested (and not needed) are not reported
    if only.is_some() {
        skipped.retain(|k, _| requested.contains(k));
    }

    // ---- output
    let mut out = String::new();
    out.push_str("(* CoreGen.v — GENERATED by tools/rs2coq_core from src/lib.rs. Do not edit. *)\n\n");
    out.push_str("From CB Require Import Machine.\n");
    if order.iter().any(|(_, d)| !d.ext_calls.is_empty()) {
        out.push_str("From CB Require Buf.   (* hand-written stand-ins of untranslated callees *)\n");
    }
    out.push_str("Open Scope Z_scope.\n\n");
    out.push_str(PRELUDE);
    for (_, d) in &order {
        out.push_str(&d.text);
        out.push('\n');
    }
    // proof support, not part of any statement: how to open the generated definitions
    // (the two arithmetic functions stay folded: they are identified with the model's first)
    let mut names = vec!["gen_mem_replace".to_string(), "gen_swap_nonoverlapping".into(), "gen_rotate_left".into()];
    for (n, _) in &order {
        if !FREE.contains(&n.as_str()) {
            names.push(format!("gen_{}", n));
        }
    }
    out.push_str("(* proof support: opens every generated definition except gen_add_mod / gen_sub_mod *)\n");
    write!(out, "Ltac coregen_unfold :=\n  cbv beta iota zeta delta\n    [{}].\n", names.join("\n     ")).unwrap();
    std::fs::write(&pos[1], &out).map_err(|e| format!("cannot write {}: {}", pos[1], e))?;

    let mut js = String::from("{\n \"translated\": [\n");
    for (k, (n, d)) in order.iter().enumerate() {
        write!(
            js,
            "  {{\"name\": {}, \"gen\": {}, \"hand\": {}, \"lines\": [{}, {}], \"params\": {}, \"ret\": {}, \"calls\": {}, \"hand_callees\": {}}}{}\n",
            json_str(n), json_str(&format!("gen_{}", n)), json_str(&hand_name(n)), d.lines.0, d.lines.1,
            json_list(&d.params), json_str(&d.ret), json_list(&d.calls), json_list(&d.ext_calls),
            if k + 1 == order.len() { "" } else { "," }
        )
        .unwrap();
    }
    js.push_str(" ],\n \"skipped\": {\n");
    for (k, (n, why)) in skipped.iter().enumerate() {
        write!(js, "  {}: {}{}\n", json_str(n), json_str(why), if k + 1 == skipped.len() { "" } else { "," }).unwrap();
    }
    js.push_str(" }\n}\n");
    let jp = format!("{}.json", pos[1]);
    std::fs::write(&jp, js).map_err(|e| format!("cannot write {}: {}", jp, e))?;

    for (n, d) in &order {
        let mut extra = String::new();
        if !d.calls.is_empty() {
            write!(extra, " calls [{}]", d.calls.join(", ")).unwrap();
        }
        if !d.ext_calls.is_empty() {
            write!(extra, " relative to the hand-written model of [{}]", d.ext_calls.join(", ")).unwrap();
        }
        println!("translated fn {} src/lib.rs:{}-{}{}", n, d.lines.0, d.lines.1, extra);
    }
    let mut rc = 0;
    for (n, why) in &skipped {
        println!("skipped fn {}: {}", n, why);
        let must = REQUIRED.contains(&n.as_str()) || strict || only.is_some();
        if must {
            eprintln!("rs2coq_core: fn {}: NOT TRANSLATED: {}", n, why);
            rc = 1;
        }
    }
    println!("summary: {} translated, {} skipped", order.len(), skipped.len());
    Ok(rc)
}

fn main() {
    match run() {
        Ok(rc) => std::process::exit(rc),
        Err(e) => {
            eprintln!("rs2coq_core: {}", e);
            std::process::exit(1);
        }
    }
}
