//! The std table: every function, method, adaptor or macro of core / std / alloc that the
//! translated functions may use, with the term of the model it is rendered as. It is part of the
//! trusted base (nothing ties these renderings to the text of std) and is written, as it stands
//! here, to the report (`std_table`). A call that is not in the table is refused where it occurs
//! (file:line:column), by the default arms of `call.rs`.
//!
//! The first group is what the translator has rendered since its first version (the list at the
//! top of `tr.rs`); the entries marked [adaptor] are the iterator / comparison / formatting /
//! hashing adaptors of the trait impls, each rendered as a combinator of `theories/Traits.v`
//! (the one the hand-written model is built from) or of the generated prelude (proved equal to
//! the model's in `coq/gen/CoreGenProofs.v`); the entries marked [unstable] are the nightly slice
//! functions the `cfg(feature = "unstable")` bodies call, rendered as their models in
//! `theories/Unstable.v`.

use crate::ir::*;

/// (what the source says, what it is rendered as)
pub const STD_TABLE: &[(&str, &str)] = &[
    // ---- machine level (since the first version)
    ("a + b, a - b, a * b, a % b on usize", "uadd / usub / umul / urem a b (overflow and division checks as rustc compiles them)"),
    ("usize::overflowing_add / checked_add / checked_sub / wrapping_add / wrapping_sub / min / max, cmp::min", "overflowing_add / checked_add / checked_sub / (a + b) mod W / (a - b) mod W / Z.min / Z.max"),
    ("debug_assert!(c) / assert!(c) / debug_assert_eq! / assert_eq! / _ne!", "dassert c / assert_ c"),
    ("unimplemented!()", "panic PUnimplemented"),
    ("Option::expect(msg)", "match o with Some v => ret v | None => panic PExpect end"),
    ("Option::map(|x| body)", "match o with None => ret None | Some x => v <- body;; ret (Some v) end"),
    ("e? on an Option", "match e with None => ret None | Some t => ... end"),
    ("&items[i], &items[a..b], items.split_at(_mut)(k), &x[a..b], x.split_at(_mut)(k)", "idx i / sl_range / sl_split_at (PBounds when out of range)"),
    ("<[T]>::len / is_empty / split_first(_mut) / split_last(_mut)", "slen / slen =? 0 / gen_split_first / gen_split_last"),
    ("&[] / &mut [] / &[][..]", "empty_slice"),
    ("MaybeUninit::assume_init_ref / assume_init_mut on a slot", "the slot"),
    ("MaybeUninit::assume_init_read, ptr::read", "read_slot"),
    ("MaybeUninit::write", "write_slot"),
    ("mem::replace on a slot", "gen_mem_replace (read_slot, then write_slot)"),
    ("mem::take of a `&mut &mut [T]`", "the slice; the place holds empty_slice afterwards"),
    ("mem::forget / drop of a local with a destructor", "the destructor does not run / runs now"),
    ("ptr::copy(p.add(a), p.add(b), n), p = items.as_mut_ptr()", "raw_copy a b n (PMemFault outside the array)"),
    ("ptr::swap_nonoverlapping(r, q, 1)", "gen_swap_nonoverlapping r q"),
    ("ptr::drop_in_place(slice)", "drop_slice"),
    ("<[_]>::rotate_left(k) on the items array", "gen_rotate_left k"),
    ("`slice as *mut [T] as *mut T`, `&*(x as *const [MaybeUninit<T>] as *const [T])`", "soff slice / the same view"),
    ("NonNull::from(buf) / as_ref / as_mut", "the buffer (the machine state)"),
    ("Range<usize>::next / next_back / len / is_empty on a field", "gen_range_next / gen_range_next_back / gen_range_len / b <=? a"),
    ("RangeBounds::start_bound / end_bound, Bound::{Included, Excluded, Unbounded}", "the two values of type `bound`: BIncl / BExcl / BUnb"),
    ("T::clone on an element", "clone_elem"),
    ("<&[u8] as Read>::read(dst) (.await: immediately ready)", "Io.slice_read"),
    ("a user closure F: FnMut() -> T called", "call_closure"),
    // ---- added with the trait impls
    ("Range<usize>::size_hint on a field", "(gen_range_len a b, Some (gen_range_len a b))"),
    ("MaybeUninit::<[MaybeUninit<T>; N]>::uninit().assume_init() as the items of a new buffer", "the array keeps whatever the memory that receives the buffer holds"),
    // ---- [adaptor] the trait impls: comparison, hashing, formatting
    ("fmt::Result, DebugList::finish()", "tt: the model has no formatting errors (what is written is the event log)"),
    ("[adaptor] f.debug_list().entries(x) with x an Iter, or `&CircularBuffer` (its IntoIterator::into_iter is called)", "src <- get;; Traits.iter_for_each fuel src it (fun e => emit (EvFmt e);; user_call FFmt)  (fuel: the hand-written model's, per function)"),
    ("[adaptor] Iter::for_each(|item| body), item: &T", "src <- get;; Traits.iter_for_each fuel src it (fun item => body), item the element the reference points to"),
    ("<usize as Hash>::hash(state)", "emit (EvHashLen n)"),
    ("<T as Hash>::hash(item, state)", "emit (EvHash item);; user_call FHash"),
    ("[adaptor] Iter::partial_cmp(other_iter) (T: PartialOrd<U>), Iter::cmp(other_iter) (T: Ord)", "Traits.iter_cmp_loop cmpf fuel src_a src_b ia ib; cmpf : elem -> elem -> option comparison is the order of the elements, a parameter; the Ordering Ord::cmp returns is rendered as Some _"),
    ("usize::cmp(&a, &b), match on Ordering::{Less, Equal, Greater}", "a ?= b, match with Lt | Eq | Gt"),
    ("[adaptor] x == y on slices of elements (views of the array of this or of another buffer, slices outside the array)", "Traits.slice_eq eqf (elements of x) (elements of y); eqf : elem -> elem -> bool is PartialEq of the elements, a parameter"),
    ("a && b, a || b where b does more than read the state", "x <- a;; if x then b else ret false / if x then ret true else b  (Traits.and_then)"),
    ("self == slice (self the buffer)", "the translation of <CircularBuffer as PartialEq<[U]>>::eq"),
    ("<[U]>::split_at(k) on a slice outside the array", "gen_bounds_check (k <=? zlen l);; (firstn k l, skipn k l)"),
    ("other.f(args) for a `&self` method f of the buffer, other: &CircularBuffer next to a self receiver", "'(r, _) <- with_buf other (gen_f args)"),
    // ---- [adaptor] the iterators of Extend / FromIterator / Clone
    ("[adaptor] a value of a type I: IntoIterator<Item = T> (or Item = &'a T); x.into_iter(); x.for_each(|item| body)", "the function that runs a closure on every item, of type (elem -> M unit) -> M unit: a parameter of the generated function; into_iter() is the same value; for_each applies it to (fun item => body). The lemmas instantiate it: gen_user_for_each xs (a user iterator that owns xs: EvNext / FNext at every step, the items it still owns destroyed when anything unwinds; proved equal to Traits.extend_loop) and gen_refs_for_each xs (borrowed Copy elements, no user code; Traits.extend_ref)"),
    ("[adaptor] Iter::cloned() (T: Clone), as the argument of extend / from_iter", "Traits.cloned_for_each fuel src it (src the buffer the Iter looks at; fuel: the hand-written model's)"),
    ("self.extend(x)", "the translation of Extend<T>::extend or of Extend<&T>::extend, by the type of the items of x"),
    ("an Option<T> thrown away, T: Copy", "nothing (no destructor)"),
    ("Self { size, start, items } / a call of a constructor, in a constructor of CircularBuffer", "the function runs on the memory that receives its result (a state of the capacity of the type, its size, start and items arbitrary): set_size / set_start, the items stay what the memory holds; `let buf = Self::new()` makes that state `buf`, a local with the buffer's destructor until it is returned"),
    ("a constructor called by a `&self` method that returns Self (clone)", "'(_, b) <- with_buf mem' (gen_ctor args);; ret b, mem' (the memory that receives the result) a parameter of the generated function"),
    // ---- [unstable] nightly slice functions, on a `&mut &[T]` / `&mut &mut [T]` parameter: the new
    //      value of the place and what was taken (theories/Unstable.v, modelled from core/src/slice/mod.rs)
    ("[unstable] <[T]>::split_off(range) / split_off_mut(range), range: impl OneSidedRange<usize>", "Unstable.sl_split_off / Unstable.sl_split_off_mut sl range (range : Unstable.osr)"),
    ("[unstable] <[T]>::split_off_first / split_off_last", "Unstable.sl_split_off_first / Unstable.sl_split_off_last"),
    ("[unstable] <[T]>::split_off_first_mut / split_off_last_mut", "Unstable.sl_split_off_first_mut / Unstable.sl_split_off_last_mut (the place holds empty_slice on None)"),
];

pub struct SplitOff {
    pub model: &'static str,
    /// takes a range and can fail a bounds check (a computation); otherwise a pure function
    pub ranged: bool,
}

pub fn split_off(method: &str) -> Option<SplitOff> {
    let (model, ranged) = match method {
        "split_off" => ("sl_split_off", true),
        "split_off_mut" => ("sl_split_off_mut", true),
        "split_off_first" => ("sl_split_off_first", false),
        "split_off_first_mut" => ("sl_split_off_first_mut", false),
        "split_off_last" => ("sl_split_off_last", false),
        "split_off_last_mut" => ("sl_split_off_last_mut", false),
        _ => return None,
    };
    Some(SplitOff { model, ranged })
}

/// an expression that is known as a whole (its normalised token text)
pub fn whole_expr(tokens: &str) -> Option<Val> {
    match tokens {
        "MaybeUninit :: < [MaybeUninit < T > ; N] > :: uninit () . assume_init ()" => Some(Val::atom("<uninit>", Ty::UninitItems)),
        _ => None,
    }
}

pub fn table_json() -> String {
    let mut o = String::from("[\n");
    for (k, (a, b)) in STD_TABLE.iter().enumerate() {
        let esc = |s: &str| s.replace('\\', "\\\\").replace('"', "\\\"");
        o.push_str(&format!("  [\"{}\", \"{}\"]{}\n", esc(a), esc(b), if k + 1 == STD_TABLE.len() { "" } else { "," }));
    }
    o.push_str(" ]");
    o
}
