//! statements, blocks, loops, locals with destructors

use crate::expr::*;
use crate::ir::*;
use crate::tr::*;
use std::collections::HashSet;
use syn::spanned::Spanned;
use syn::{Expr, Lit, Pat, Stmt};

fn collect_idents(ts: proc_macro2::TokenStream, out: &mut Vec<String>) {
    for t in ts {
        match t {
            proc_macro2::TokenTree::Ident(i) => {
                let s = i.to_string();
                if !out.contains(&s) {
                    out.push(s);
                }
            }
            proc_macro2::TokenTree::Group(g) => collect_idents(g.stream(), out),
            _ => {}
        }
    }
}

fn idents_of(x: impl quote::ToTokens) -> Vec<String> {
    let mut v = vec![];
    collect_idents(x.to_token_stream(), &mut v);
    v
}

impl<'a> Tr<'a> {
    pub fn bind_pattern(&mut self, p: &Pat, v: &Val, env: &mut Env) -> Res<String> {
        match p {
            Pat::Ident(pi) => {
                no_attrs(&pi.attrs, pi.span())?;
                if pi.by_ref.is_some() || pi.subpat.is_some() {
                    return unsupported("`ref` or `@` binding", pi.span());
                }
                let n = self.coq_ident(&pi.ident)?;
                env.insert(pi.ident.to_string(), Val::atom(n.clone(), v.ty.clone()));
                Ok(n)
            }
            Pat::Wild(_) => Ok("_".into()),
            Pat::Paren(pp) => self.bind_pattern(&pp.pat, v, env),
            Pat::Type(pt) => {
                no_attrs(&pt.attrs, pt.span())?;
                let t = type_of(&pt.ty, &TyCtx { owner: self.me.owner.clone(), ..Default::default() })?;
                if !t.compat(&v.ty) {
                    return Err(format!(
                        "{}: binding annotated {} receives a value of type {}",
                        at(pt.span()), t.show(), v.ty.show()
                    ));
                }
                self.bind_pattern(&pt.pat, v, env)
            }
            Pat::Tuple(pt) => {
                no_attrs(&pt.attrs, pt.span())?;
                let tys = match &v.ty {
                    Ty::Tuple(t) if t.len() == pt.elems.len() => t.clone(),
                    _ => return unsupported(&format!("tuple pattern against {}", v.ty.show()), pt.span()),
                };
                let mut names = vec![];
                for (q, t) in pt.elems.iter().zip(tys.iter()) {
                    match q {
                        Pat::Ident(_) | Pat::Wild(_) => {
                            names.push(self.bind_pattern(q, &Val::atom("_", t.clone()), env)?)
                        }
                        _ => return unsupported("nested pattern", q.span()),
                    }
                }
                Ok(format!("'({})", names.join(", ")))
            }
            other => unsupported("pattern (only names, `_` and flat tuples are known)", other.span()),
        }
    }

    fn assertion(&mut self, mac: &syn::Macro, env: &mut Env, pre: &mut Vec<Pre>) -> Res<()> {
        let name = mac.path.segments.iter().map(|s| s.ident.to_string()).collect::<Vec<_>>().join("::");
        let (op, ncond) = match name.as_str() {
            "debug_assert" => ("dassert", 1),
            "assert" => ("assert_", 1),
            "debug_assert_eq" | "debug_assert_ne" => ("dassert", 2),
            "assert_eq" | "assert_ne" => ("assert_", 2),
            _ => return unsupported(&format!("macro `{}!`", name), mac.span()),
        };
        let args: Vec<Expr> = mac
            .parse_body_with(syn::punctuated::Punctuated::<Expr, syn::Token![,]>::parse_terminated)
            .map_err(|e| format!("{}: cannot parse the arguments of {}!: {}", at(mac.span()), name, e))?
            .into_iter()
            .collect();
        if args.len() < ncond {
            return unsupported("assertion without a condition", mac.span());
        }
        // a message is only evaluated when the assertion fails, and then the function panics
        // whatever it says: its arguments may read the state but must not be able to fail or write
        match &args[ncond..] {
            [] => {}
            [Expr::Lit(l), rest @ ..] if matches!(l.lit, Lit::Str(_)) => {
                for a in rest {
                    let mut mpre = vec![];
                    let mut menv = env.clone();
                    let saved = (self.harmless, self.user);
                    let r = self.val(a, &mut menv, &mut mpre);
                    self.harmless = saved.0;
                    self.user = saved.1;
                    r.map_err(|e| format!("{} (in the message of an assertion)", e))?;
                    if !mpre.iter().all(|p| p.harmless()) || !self.changed(env, &menv).is_empty() {
                        return unsupported("assertion message whose arguments do more than read the state", a.span());
                    }
                }
            }
            _ => return unsupported("assertion message that does not start with a string literal", mac.span()),
        }
        let mut own: Vec<Pre> = vec![];
        let cond = if ncond == 1 {
            self.typed(&args[0], env, &mut own, &Ty::Bool, "asserted condition")?
        } else {
            let a = self.typed(&args[0], env, &mut own, &Ty::Usize, "operand of assert_eq / assert_ne")?;
            let b = self.typed(&args[1], env, &mut own, &Ty::Usize, "operand of assert_eq / assert_ne")?;
            let eq = format!("{} =? {}", a.paren(), b.paren());
            if name.ends_with("_ne") {
                Val::app(format!("negb ({})", eq), Ty::Bool)
            } else {
                Val::app(eq, Ty::Bool)
            }
        };
        // a debug assertion is not evaluated at all in a release build: its operands
        // may read the state but must not contain operations that could panic or write
        if op == "dassert" && !own.iter().all(|p| p.harmless()) {
            return unsupported(
                "debug assertion whose condition performs checked arithmetic or a call (not evaluated in release builds)",
                mac.span(),
            );
        }
        pre.append(&mut own);
        self.emit(pre, env, None, Comp::Op(op.into(), vec![cond], Ty::Unit))
    }

    /// a statement list. `tail`: falling off the end of this list (or returning
    /// from inside it) ends the function. The flag in the result says whether
    /// every path through the list ends in `return`; the environment is the one at the end.
    /// the rest of a statement list, as a list of its own (same nesting)
    fn block_rest(&mut self, stmts: &[Stmt], env: Env, tail: bool) -> Res<(Comp, bool, Env)> {
        self.depth -= 1;
        let r = self.block(stmts, env, tail);
        self.depth += 1;
        r
    }

    pub fn block(&mut self, stmts: &[Stmt], env: Env, tail: bool) -> Res<(Comp, bool, Env)> {
        let saved = self.can_return;
        self.can_return = saved && tail;
        self.depth += 1;
        let r = self.block_inner(stmts, env, tail);
        self.depth -= 1;
        self.can_return = saved;
        r
    }

    /// the items declared in a statement list: structs and their `impl Drop`
    fn scan_items(&mut self, stmts: &[Stmt]) -> Res<()> {
        for st in stmts {
            let it = match st {
                Stmt::Item(it) => it,
                _ => continue,
            };
            match it {
                syn::Item::Struct(s) => {
                    let cx = TyCtx::default();
                    let mut fields = vec![];
                    match &s.fields {
                        syn::Fields::Unnamed(u) => {
                            for (k, f) in u.unnamed.iter().enumerate() {
                                fields.push((k.to_string(), type_of(&f.ty, &cx)?));
                            }
                        }
                        syn::Fields::Named(n) => {
                            for f in &n.named {
                                fields.push((f.ident.as_ref().unwrap().to_string(), type_of(&f.ty, &cx)?));
                            }
                        }
                        syn::Fields::Unit => {}
                    }
                    for a in &s.attrs {
                        if !a.path().is_ident("doc") {
                            return unsupported("attribute on a local struct", a.span());
                        }
                    }
                    self.nested.insert(s.ident.to_string(), Nested { fields, drop_body: None });
                }
                syn::Item::Impl(im) => {
                    let tn = match &*im.self_ty {
                        syn::Type::Path(p) => p.path.segments.last().map(|s| s.ident.to_string()),
                        _ => None,
                    };
                    let is_drop = im.trait_.as_ref().map(|(_, p, _)| p.is_ident("Drop")).unwrap_or(false);
                    let tn = match (tn, is_drop) {
                        (Some(t), true) if self.nested.contains_key(&t) => t,
                        _ => return unsupported("impl inside a function body other than `impl Drop` for a struct declared there", im.span()),
                    };
                    let mut body = None;
                    for ii in &im.items {
                        match ii {
                            syn::ImplItem::Fn(f) if f.sig.ident == "drop" && norm_tokens(&f.sig.inputs) == "& mut self" => {
                                for a in &f.attrs {
                                    if !a.path().is_ident("inline") && !a.path().is_ident("doc") {
                                        return unsupported("attribute on a local destructor", a.span());
                                    }
                                }
                                body = Some(f.block.clone());
                            }
                            other => return unsupported("item of a local `impl Drop` other than `fn drop(&mut self)`", other.span()),
                        }
                    }
                    self.nested.get_mut(&tn).unwrap().drop_body = body;
                }
                syn::Item::Fn(f) => {
                    // a nested function is a unit of its own (main.rs); here only its cfg matters
                    let _ = f;
                }
                other => return unsupported("item inside a function body (only structs, their `impl Drop` and functions are known)", other.span()),
            }
        }
        Ok(())
    }

    fn block_inner(&mut self, stmts: &[Stmt], mut env: Env, tail: bool) -> Res<(Comp, bool, Env)> {
        self.scan_items(stmts)?;
        let mut pre: Vec<Pre> = vec![];
        // names shadowed in this block: (name, what it held outside)
        let mut shadowed: Vec<(String, Option<Val>)> = vec![];
        // the live locals of this block
        let mut mine: Vec<String> = vec![];
        macro_rules! leave {
            ($env:expr) => {{
                for (n, old) in shadowed.iter().rev() {
                    match old {
                        Some(v) => {
                            $env.insert(n.clone(), v.clone());
                        }
                        None => {
                            $env.remove(n);
                        }
                    }
                }
            }};
        }
        let mut i = 0usize;
        while i < stmts.len() {
            let st = &stmts[i];
            let last = i + 1 == stmts.len();
            i += 1;
            match st {
                Stmt::Local(l) => {
                    match cfg_keep(&l.attrs) {
                        Some(true) => {}
                        Some(false) => continue,
                        None => return unsupported("attribute on a `let`", l.span()),
                    }
                    let init = match &l.init {
                        Some(init) => init,
                        None => return unsupported("`let` without initialiser", l.span()),
                    };
                    if init.diverge.is_some() {
                        return unsupported("let-else", l.span());
                    }
                    let c = self.comp(&init.expr, &mut env, &mut pre, false)?;
                    if c.ty() == Ty::NewBuf {
                        // `let buf = <constructor>`: in a constructor, the buffer being built (the state), a
                        // local with a destructor until it is returned
                        let id = match &l.pat {
                            Pat::Ident(pi) if pi.by_ref.is_none() && pi.subpat.is_none() && pi.attrs.is_empty() => pi.ident.clone(),
                            _ => return unsupported("pattern binding a buffer", l.pat.span()),
                        };
                        if self.me.ret != Ty::NewBuf || self.in_loop || self.depth > 1 || env.values().any(|v| v.ty == Ty::Buf) {
                            return unsupported(
                                "`let` of a buffer by value other than the buffer a constructor builds (in the model the buffer is the state of the computation)",
                                l.span(),
                            );
                        }
                        self.coq_ident(&id)?;
                        if !shadowed.iter().any(|(m, _)| m == &id.to_string()) {
                            shadowed.push((id.to_string(), env.get(&id.to_string()).cloned()));
                        }
                        self.emit(&mut pre, &env, None, c)?;
                        env.insert(id.to_string(), Val::atom("<buffer>", Ty::Buf));
                        self.live.push(id.to_string());
                        mine.push(id.to_string());
                        continue;
                    }
                    if c.ty() == Ty::UninitItems {
                        return unsupported(&format!("`let` of a {}", c.ty().show()), l.span());
                    }
                    let simple_name = |p: &Pat| -> Option<syn::Ident> {
                        match p {
                            Pat::Ident(pi) if pi.by_ref.is_none() && pi.subpat.is_none() && pi.attrs.is_empty() => Some(pi.ident.clone()),
                            _ => None,
                        }
                    };
                    // the names this `let` declares hide what they stood for until the block ends
                    for n in idents_of(&l.pat) {
                        if n != "mut" && n != "ref" && !shadowed.iter().any(|(m, _)| m == &n) {
                            shadowed.push((n.clone(), env.get(&n).cloned()));
                        }
                    }
                    match c {
                        // these are only names for what they stand for
                        Comp::Ret(v) if matches!(v.ty, Ty::Range | Ty::Ptr | Ty::Buf | Ty::Bounds | Ty::Items) => match simple_name(&l.pat) {
                            Some(id) => {
                                self.coq_ident(&id)?;
                                env.insert(id.to_string(), v);
                            }
                            None => return unsupported("pattern binding a range, a raw pointer or the buffer", l.pat.span()),
                        },
                        Comp::Ret(v) if matches!(v.ty, Ty::Guard(_)) => {
                            let id = match simple_name(&l.pat) {
                                Some(id) => id,
                                None => return unsupported("pattern binding a local with a destructor", l.pat.span()),
                            };
                            self.coq_ident(&id)?;
                            let name = id.to_string();
                            env.insert(name.clone(), v);
                            // is it mentioned again in this block? then it is moved (or lives to the
                            // end and is destroyed there); otherwise the rest of the block runs under it
                            let mentioned = stmts[i..].iter().any(|s| idents_of(s).contains(&name));
                            if mentioned {
                                self.live.push(name.clone());
                                mine.push(name);
                            } else {
                                let cl = self.cleanup_of(&name, &env)?;
                                let (rest, div, mut e2) = self.block_rest(&stmts[i..], env, tail)?;
                                self.harmless = false;
                                if self.comp_user(&cl) {
                                    self.user = true;
                                }
                                let whole = Comp::Finally(Box::new(rest), Box::new(cl));
                                leave!(e2);
                                return Ok((wrap(pre, whole), div, e2));
                            }
                        }
                        Comp::Ret(v) => {
                            let owned_elem = v.ty == Ty::Elem;
                            let _ = owned_elem;
                            let name = self.bind_pattern(&l.pat, &v, &mut env)?;
                            pre.push(Pre::Let(name, v));
                        }
                        c => {
                            let ty = c.ty();
                            if ty == Ty::Unit {
                                return unsupported("`let` of a unit-valued expression", l.span());
                            }
                            let name = self.bind_pattern(&l.pat, &Val::atom("_", ty), &mut env)?;
                            self.emit(&mut pre, &env, Some(name), c)?;
                        }
                    }
                }
                Stmt::Macro(m) => {
                    no_attrs(&m.attrs, m.span())?;
                    self.assertion(&m.mac, &mut env, &mut pre)?;
                }
                Stmt::Item(_) => {}
                Stmt::Expr(Expr::Return(r), _) => {
                    no_attrs(&r.attrs, r.span())?;
                    if !tail || !self.can_return {
                        return Err(format!(
                            "{}: `return` from inside a nested expression is not supported",
                            at(r.span())
                        ));
                    }
                    if !last {
                        return Err(format!("{}: code after `return`", at(stmts[i].span())));
                    }
                    let c = match &r.expr {
                        Some(e) => self.comp(e, &mut env, &mut pre, false)?,
                        None => Comp::unit(),
                    };
                    if !c.ty().compat(&self.me.ret) {
                        return Err(format!(
                            "{}: `return` of a {} in a function returning {}",
                            at(r.span()), c.ty().show(), self.me.ret.show()
                        ));
                    }
                    let c = self.finish(c, &env, pre)?;
                    return Ok((c, true, env));
                }
                // `if c { ...; return e; }` followed by the rest of the block
                Stmt::Expr(Expr::If(f), _)
                    if !last && f.else_branch.is_none() && tail && ends_in_return(&f.then_branch.stmts) && !matches!(&*f.cond, Expr::Let(_)) =>
                {
                    no_attrs(&f.attrs, f.span())?;
                    let c = self.typed(&f.cond, &mut env, &mut pre, &Ty::Bool, "condition")?;
                    let live = self.live.clone();
                    let (a, adiv, _) = self.block(&f.then_branch.stmts, env.clone(), true)?;
                    self.live = live;
                    if !adiv {
                        return unsupported("`if` statement whose body only sometimes returns", f.span());
                    }
                    let (b, bdiv, mut e2) = self.block_rest(&stmts[i..], env.clone(), true)?;
                    if !a.ty().compat(&b.ty()) {
                        return Err(format!(
                            "{}: early return of a {} but the rest of the block yields {}",
                            at(f.span()), a.ty().show(), b.ty().show()
                        ));
                    }
                    let ty = a.ty().join(&b.ty());
                    leave!(e2);
                    return Ok((wrap(pre, Comp::If(c, Box::new(a), Box::new(b), ty)), bdiv, e2));
                }
                // `if let Some(x) = e { ...; return v; }` followed by the rest of the block
                Stmt::Expr(Expr::If(f), _)
                    if !last && f.else_branch.is_none() && tail && ends_in_return(&f.then_branch.stmts) && matches!(&*f.cond, Expr::Let(_)) =>
                {
                    no_attrs(&f.attrs, f.span())?;
                    let l = match &*f.cond {
                        Expr::Let(l) => l,
                        _ => unreachable!(),
                    };
                    no_attrs(&l.attrs, l.span())?;
                    let v = self.val(&l.expr, &mut env, &mut pre)?;
                    let inner = match &v.ty {
                        Ty::Opt(t) if **t != Ty::Any => (**t).clone(),
                        other => return unsupported(&format!("`if let` on a {}", other.show()), l.span()),
                    };
                    let x = match &*l.pat {
                        syn::Pat::TupleStruct(ts)
                            if ts.path.is_ident("Some") && ts.elems.len() == 1 && ts.attrs.is_empty() && ts.qself.is_none() =>
                        {
                            &ts.elems[0]
                        }
                        other => return unsupported("`if let` pattern other than Some(x)", other.span()),
                    };
                    let mut env_a = env.clone();
                    let name = self.bind_pattern(x, &Val::atom("_", inner), &mut env_a)?;
                    let live = self.live.clone();
                    let (a, adiv, _) = self.block(&f.then_branch.stmts, env_a, true)?;
                    self.live = live;
                    if !adiv {
                        return unsupported("`if let` statement whose body only sometimes returns", f.span());
                    }
                    let (b, bdiv, mut e2) = self.block_rest(&stmts[i..], env.clone(), true)?;
                    if !a.ty().compat(&b.ty()) {
                        return Err(format!(
                            "{}: early return of a {} but the rest of the block yields {}",
                            at(f.span()), a.ty().show(), b.ty().show()
                        ));
                    }
                    self.harmless = false;
                    leave!(e2);
                    return Ok((wrap(pre, Comp::MatchOpt(v, name, Box::new(b), Box::new(a))), bdiv, e2));
                }
                Stmt::Expr(Expr::While(w), _) => {
                    self.while_loop(w, &stmts[i..], &mut env, &mut pre)?;
                }
                Stmt::Expr(e, semi) => {
                    let attrs: &[syn::Attribute] = match e {
                        Expr::Unsafe(u) => &u.attrs,
                        Expr::Block(b) => &b.attrs,
                        Expr::Call(c) => &c.attrs,
                        Expr::MethodCall(c) => &c.attrs,
                        _ => &[],
                    };
                    let stripped;
                    let e: &Expr = if attrs.is_empty() {
                        e
                    } else {
                        match cfg_keep(attrs) {
                            Some(true) => {
                                let mut x = e.clone();
                                match &mut x {
                                    Expr::Unsafe(u) => u.attrs.clear(),
                                    Expr::Block(b) => b.attrs.clear(),
                                    Expr::Call(c) => c.attrs.clear(),
                                    Expr::MethodCall(c) => c.attrs.clear(),
                                    _ => {}
                                }
                                stripped = x;
                                &stripped
                            }
                            Some(false) => continue,
                            None => return unsupported("attribute on an expression statement", e.span()),
                        }
                    };
                    // is this the value of the block? (a later statement may be compiled out)
                    let rest_out = stmts[i..].iter().all(|s| match s {
                        Stmt::Expr(Expr::Unsafe(u), _) => cfg_keep(&u.attrs) == Some(false) && !u.attrs.is_empty(),
                        Stmt::Expr(Expr::Call(c), _) => cfg_keep(&c.attrs) == Some(false) && !c.attrs.is_empty(),
                        Stmt::Expr(Expr::MethodCall(c), _) => cfg_keep(&c.attrs) == Some(false) && !c.attrs.is_empty(),
                        Stmt::Item(_) => true,
                        _ => false,
                    });
                    if rest_out && semi.is_none() {
                        let c = self.comp(e, &mut env, &mut pre, tail)?;
                        if tail {
                            if is_control(e) {
                                leave!(env);
                                return Ok((wrap(pre, c), false, env));
                            }
                            if !c.ty().compat(&self.me.ret) && !self.view_as_bytes(&c.ty()) {
                                return Err(format!(
                                    "{}: the body yields {}, expected {}",
                                    at(e.span()), c.ty().show(), self.me.ret.show()
                                ));
                            }
                            let c = self.finish(c, &env, pre)?;
                            return Ok((c, false, env));
                        }
                        let c = self.end_of_block(c, &mut mine, &mut env, &mut pre)?;
                        leave!(env);
                        return Ok((wrap(pre, c), false, env));
                    }
                    // an expression statement: evaluated for its effects, value dropped.
                    // It cannot leave the function (a `return` inside would be refused).
                    let saved = self.can_return;
                    self.can_return = false;
                    let c = self.comp(e, &mut env, &mut pre, false);
                    self.can_return = saved;
                    let c = c?;
                    match c.ty() {
                        Ty::Unit => {}
                        // values without a destructor may be dropped on the floor
                        Ty::Usize | Ty::Bool | Ty::Ref | Ty::Slice | Ty::Ptr if semi.is_some() => {}
                        Ty::Opt(t) if semi.is_some() && matches!(*t, Ty::Usize | Ty::Bool | Ty::Ref | Ty::Slice) => {}
                        // an Option<T> that is thrown away is destroyed; when T: Copy there is nothing to destroy
                        Ty::Opt(t) if semi.is_some() && *t == Ty::Elem && self.me.copy_elems => {
                            if !matches!(c, Comp::Ret(_)) {
                                self.emit(&mut pre, &env, None, c)?;
                            }
                            continue;
                        }
                        Ty::Opt(t) if semi.is_some() && *t == Ty::Elem => {
                            let v = self.bind_val(c, &env, &mut pre, e.span())?;
                            self.emit(&mut pre, &env, None, Comp::Op("drop_opt".into(), vec![v], Ty::Unit))?;
                            continue;
                        }
                        // so is a Drain
                        Ty::Rec(n) if semi.is_some() && n == "Drain" => {
                            let v = self.bind_val(c, &env, &mut pre, e.span())?;
                            let key = match self.index.get(&(Some("Drain".to_string()), "drop".to_string())) {
                                Some(k) => k.clone(),
                                None => return unsupported("a Drain that is thrown away (its destructor is not among the functions)", e.span()),
                            };
                            let mut env2 = env.clone();
                            let call = self.call_known(&key, Some((e, None, v.clone())), vec![], &mut env2, &mut pre, e.span())?;
                            self.emit(&mut pre, &env, None, call)?;
                            continue;
                        }
                        t => {
                            return unsupported(
                                &format!("expression statement whose value (a {}) is discarded", t.show()),
                                e.span(),
                            )
                        }
                    }
                    if !matches!(c, Comp::Ret(_)) {
                        self.emit(&mut pre, &env, None, c)?;
                    }
                }
            }
        }
        if tail {
            let c = self.finish(Comp::unit(), &env, pre)?;
            return Ok((c, false, env));
        }
        let c = self.end_of_block(Comp::unit(), &mut mine, &mut env, &mut pre)?;
        leave!(env);
        Ok((wrap(pre, c), false, env))
    }

    /// a view of the array where bytes are expected (its contents are meant: see `finish`)
    fn view_as_bytes(&self, t: &Ty) -> bool {
        let inner = |t: &Ty| match t {
            Ty::IoRes(x) => (**x).clone(),
            x => x.clone(),
        };
        inner(&self.me.ret) == Ty::List && inner(t) == Ty::Slice
    }

    /// the locals of a nested block that are still alive at its end are destroyed there
    fn end_of_block(&mut self, c: Comp, mine: &mut Vec<String>, env: &mut Env, pre: &mut Vec<Pre>) -> Res<Comp> {
        let still: Vec<String> = mine.iter().filter(|n| self.live.contains(n)).cloned().collect();
        if still.is_empty() {
            return Ok(c);
        }
        let v = match c {
            Comp::Ret(v) => v,
            c => {
                let ty = c.ty();
                if ty == Ty::Unit {
                    self.emit(pre, env, None, c)?;
                    Val::unit()
                } else {
                    let n = self.fresh();
                    self.emit(pre, env, Some(n.clone()), c)?;
                    Val::atom(n, ty)
                }
            }
        };
        for n in still.iter().rev() {
            let cl = self.cleanup_of(n, env)?;
            self.live.retain(|x| x != n);
            self.emit(pre, env, None, cl)?;
        }
        Ok(Comp::Ret(v))
    }

    /// `while cond { body }`: a Fixpoint on fuel
    fn while_loop(&mut self, w: &syn::ExprWhile, after: &[Stmt], env: &mut Env, pre: &mut Vec<Pre>) -> Res<()> {
        no_attrs(&w.attrs, w.span())?;
        if w.label.is_some() {
            return unsupported("labelled loop", w.span());
        }
        if self.in_loop {
            return unsupported("loop inside a loop", w.span());
        }
        if matches!(&*w.cond, Expr::Let(_)) {
            return unsupported("while let", w.span());
        }
        let k = self.loops;
        self.loops += 1;
        let fuel_tpl = match self.fuel.get(self.fuel_ix) {
            Some(f) => *f,
            None => return unsupported("loop for which no bound on the number of iterations (fuel) is recorded", w.span()),
        };
        self.fuel_ix += 1;
        let fname = format!("gen_{}_loop{}", self.me.key, k + 1);
        // the variables the loop mentions become its parameters, in the order they appear
        let mut names: Vec<String> = vec![];
        let mut toks = idents_of(&w.cond);
        for x in idents_of(&w.body) {
            if !toks.contains(&x) {
                toks.push(x);
            }
        }
        for x in toks {
            if let Some(v) = env.get(&x) {
                match v.ty {
                    Ty::Buf | Ty::Items | Ty::Closure => {}
                    ref t if t.coq().is_ok() => names.push(x),
                    ref t => return unsupported(&format!("loop that mentions `{}`, a {}", x, t.show()), w.span()),
                }
            }
        }
        let mut inner: Env = env.clone();
        let mut params: Vec<(String, String, Ty)> = vec![]; // (rust name, coq name, type)
        for x in &names {
            let id = syn::Ident::new(x, w.span());
            let cn = if x == "self" { "self'".to_string() } else { self.coq_ident(&id)? };
            let t = env[x].ty.clone();
            inner.insert(x.clone(), Val::atom(cn.clone(), t.clone()));
            params.push((x.clone(), cn, t));
        }
        // condition and body, with no way out of the function and with the live locals of the
        // function out of the picture (the loop as a whole runs under them)
        let saved = (self.can_return, std::mem::take(&mut self.live), self.in_loop, self.self_out, std::mem::take(&mut self.outs));
        self.can_return = false;
        self.in_loop = true;
        self.self_out = false;
        let r = (|| -> Res<(Vec<Pre>, Val, Comp, Env)> {
            let mut cpre = vec![];
            let mut cenv = inner.clone();
            let cond = self.typed(&w.cond, &mut cenv, &mut cpre, &Ty::Bool, "loop condition")?;
            if !self.changed(&inner, &cenv).is_empty() {
                return unsupported("loop condition that assigns", w.cond.span());
            }
            let (body, _, benv) = self.block(&w.body.stmts, cenv, false)?;
            if body.ty() != Ty::Unit {
                return unsupported("loop body with a value", w.body.span());
            }
            Ok((cpre, cond, body, benv))
        })();
        self.can_return = saved.0;
        self.live = saved.1;
        self.in_loop = saved.2;
        self.self_out = saved.3;
        self.outs = saved.4;
        let (cpre, cond, body, benv) = r?;
        // what the body changes, and which of that is looked at afterwards
        let changed: Vec<String> = names.iter().filter(|n| benv.get(*n).map(|v| v.tm != inner[*n].tm).unwrap_or(false)).cloned().collect();
        let mut later: HashSet<String> = HashSet::new();
        for s in after {
            for x in idents_of(s) {
                later.insert(x);
            }
        }
        // in a nested block the statements after the enclosing block are not in view
        let top = self.depth <= 1;
        let outs: Vec<String> = changed
            .iter()
            .filter(|n| *n == "self" || later.contains(*n) || self.me.params.iter().any(|p| &p.name == *n) || !top)
            .cloned()
            .collect();
        let ret_ty = |v: &Vec<String>, e: &Env| -> Ty {
            match v.len() {
                0 => Ty::Unit,
                1 => e[&v[0]].ty.clone(),
                _ => Ty::Tuple(v.iter().map(|n| e[n].ty.clone()).collect()),
            }
        };
        let rty = ret_ty(&outs, &inner);
        let done_val = if outs.is_empty() { Val::unit() } else { tuple_val(outs.iter().map(|n| inner[n].clone()).collect()) };
        let mut rec_args = vec![Val::atom("cg_fuel'", Ty::Any)];
        for (x, _, _) in &params {
            rec_args.push(benv[x].clone());
        }
        let step = then_leaf(body, Comp::Op(fname.clone(), rec_args, rty.clone()));
        let whole = wrap(cpre, Comp::If(cond, Box::new(Comp::Fuel(Box::new(step))), Box::new(Comp::Ret(done_val)), rty.clone()));
        let whole = simplify(whole);
        let mut text = String::new();
        let ps: Vec<String> = params.iter().map(|(_, c, t)| format!("({} : {})", c, t.coq().unwrap())).collect();
        let rt = rty.coq()?;
        let rt = if rt.contains(' ') { format!("({})", rt) } else { rt };
        text.push_str(&format!(
            "(* the loop at {} *)\nFixpoint {} (cg_fuel : nat){}{} : M {} :=\n{}.\n",
            at(w.span()),
            fname,
            if ps.is_empty() { "" } else { " " },
            ps.join(" "),
            rt,
            render(&whole, 2)
        ));
        self.aux.push(text);
        // the call: the fuel the hand-written model gives the loop
        let mut fuel = fuel_tpl.to_string();
        while let Some(a) = fuel.find('{') {
            let b = fuel[a..].find('}').map(|k| a + k).ok_or("internal: bad fuel template")?;
            let what = fuel[a + 1..b].to_string();
            let v: Val = match what.as_str() {
                "N" => {
                    let n = self.fresh();
                    self.emit(pre, env, Some(n.clone()), Comp::Op("get_cap".into(), vec![], Ty::Usize))?;
                    Val::atom(n, Ty::Usize)
                }
                "size" => {
                    let n = self.fresh();
                    self.emit(pre, env, Some(n.clone()), Comp::Op("get_size".into(), vec![], Ty::Usize))?;
                    Val::atom(n, Ty::Usize)
                }
                x => match env.get(x) {
                    Some(v) if v.ty == Ty::Usize => v.clone(),
                    _ => return Err(format!("{}: the fuel of this loop is stated in terms of `{}`, which is not a usize variable here", at(w.span()), x)),
                },
            };
            fuel.replace_range(a..=b, &v.paren());
        }
        let mut args = vec![Val::app(fuel, Ty::Any)];
        for (x, _, _) in &params {
            args.push(env[x].clone());
        }
        let call = Comp::Op(fname, args, rty.clone());
        self.harmless = false;
        if self.comp_user(&whole) {
            self.user = true;
        }
        let wrap_with: Vec<String> = {
            let user = self.comp_user(&whole);
            self.live.iter().filter(|n| user || matches!(env.get(*n).map(|v| &v.ty), Some(Ty::Guard(_)))).cloned().collect()
        };
        let call = if !wrap_with.is_empty() {
            let cl = self.cleanup_all(&wrap_with, env)?;
            Comp::OnUnwind(Box::new(call), Box::new(cl))
        } else {
            call
        };
        // the variables the loop changed hold what it hands back, or nothing any more
        let mut pats = vec![];
        for n in &outs {
            let f = self.fresh();
            pats.push(f.clone());
            let t = env[n].ty.clone();
            env.insert(n.clone(), Val::atom(f, t));
        }
        for n in &changed {
            if !outs.contains(n) {
                env.remove(n);
            }
        }
        let pat = match pats.len() {
            0 => None,
            1 => Some(pats[0].clone()),
            _ => Some(format!("'({})", pats.join(", "))),
        };
        pre.push(Pre::Bind(pat, call, false));
        Ok(())
    }
}

/// does this statement list end in a `return` statement?
fn ends_in_return(stmts: &[Stmt]) -> bool {
    matches!(stmts.last(), Some(Stmt::Expr(Expr::Return(_), _)))
}
