//! The compositional translation: Rust expressions and statements of the
//! bodies of the core functions of `src/lib.rs` -> `ir::Comp`.
//!
//! Every construct is rendered the way `theories/Buf.v` renders it by hand:
//!
//!   self.size / self.start (read)        t <- get_size / get_start         (can neither fail nor write)
//!   N                                    t <- get_cap
//!   self.size = e / += e / -= e          set_size v   (after the checked uadd / usub)
//!   a + b, a - b, a * b, a % b           t <- uadd / usub / umul / urem a b   (rustc's order: left first)
//!   debug_assert!(c) / assert!(c)        dassert c / assert_ c
//!   &self.items[i], &mut self.items[i]   idx i                              (the slot's physical index)
//!   &self.items[a..b]                    it <- items_slice;; sl_range it a b
//!   self.items.split_at(_mut)(k)         it <- items_slice;; sl_split_at it k
//!   &x[a..b], &x[..b] on a slice x       sl_range x a b / sl_range x 0 b
//!   &[], &mut [], &[][..]                empty_slice
//!   r.assume_init_ref() / _mut()         r          (a reference to a slot is the slot's index)
//!   r.assume_init_read()                 read_slot r
//!   r.write(item)                        write_slot r item
//!   mem::replace(r, item)                gen_mem_replace r item  (read_slot, then write_slot)
//!   ptr::copy(p.add(a), p.add(b), n)     raw_copy a b n          (p = self.items.as_mut_ptr())
//!   ptr::swap_nonoverlapping(r, q, 1)    gen_swap_nonoverlapping r q
//!   self.items.rotate_left(k)            gen_rotate_left k
//!   slice_assume_init_ref/_mut(x)        x
//!   Some(v) / None                       Some v / None
//!   Ok(()) / Err(item)                   None / Some item        (Result<(), T> is `option elem`)
//!   e?  (on an Option)                   match e with None => ret None | Some t => ... end
//!   if c { ..; return v; } rest          if c then ret v else rest
//!   self.f(args) / f(args)               gen_f args              (f translated first)
//!
//! Anything else is refused with a message naming the construct.

use crate::ir::*;
use proc_macro2::Span;
use std::collections::{BTreeSet, HashMap, HashSet};
use syn::spanned::Spanned;
use syn::{BinOp, Expr, Lit, Pat, Stmt, UnOp};

#[derive(Clone, Debug)]
pub struct Sig {
    pub params: Vec<(String, Ty)>,
    pub ret: Ty,
    pub method: bool,
}

/// a function of the crate that is not translated but has a hand-written model
/// that translated callers may refer to (reported, never silent)
pub struct External {
    pub coq: &'static str,
    pub params: &'static [Ty],
    pub ret: Ty,
}

pub fn externals() -> HashMap<&'static str, External> {
    let mut m = HashMap::new();
    m.insert("drop_range", External { coq: "Buf.drop_range", params: &[Ty::Range], ret: Ty::Unit });
    m
}

pub type Env = HashMap<String, Val>;

pub struct Tr<'a> {
    pub sigs: &'a HashMap<String, Sig>,
    pub done: &'a HashSet<String>,
    pub exts: &'a HashMap<&'static str, External>,
    /// every identifier that occurs in the function: fresh names avoid them
    pub used: HashSet<String>,
    pub counter: usize,
    pub ret_ty: Ty,
    pub method: bool,
    /// may `return` / `?` leave the function from here (see `block`)
    pub can_return: bool,
    pub calls: BTreeSet<String>,
    pub ext_calls: BTreeSet<String>,
    /// set when the translation stopped at a call of a function that has to be translated first
    pub need: Option<String>,
}

fn no_attrs(attrs: &[syn::Attribute], sp: Span) -> Res<()> {
    if attrs.is_empty() { Ok(()) } else { unsupported("attribute on an expression or statement", sp) }
}

fn path_segments(p: &syn::ExprPath) -> Res<Vec<String>> {
    if p.qself.is_some() || p.path.leading_colon.is_some() {
        return unsupported("qualified path", p.span());
    }
    let mut v = vec![];
    for s in &p.path.segments {
        if !s.arguments.is_none() {
            return unsupported("path with generic arguments", p.span());
        }
        v.push(s.ident.to_string());
    }
    Ok(v)
}

fn last_seg(p: &syn::Path) -> Option<&syn::PathSegment> {
    p.segments.last()
}

fn is_plain(p: &syn::TypePath, name: &str) -> bool {
    p.qself.is_none() && p.path.is_ident(name)
}

/// `MaybeUninit<T>` or `T`
fn is_slot_type(t: &syn::Type) -> bool {
    match t {
        syn::Type::Paren(p) => is_slot_type(&p.elem),
        syn::Type::Path(p) if is_plain(p, "T") => true,
        syn::Type::Path(p) if p.qself.is_none() => match last_seg(&p.path) {
            Some(s) if s.ident == "MaybeUninit" => match &s.arguments {
                syn::PathArguments::AngleBracketed(a) if a.args.len() == 1 => {
                    matches!(&a.args[0], syn::GenericArgument::Type(syn::Type::Path(q)) if is_plain(q, "T"))
                }
                _ => false,
            },
            _ => false,
        },
        _ => false,
    }
}

pub fn type_of(t: &syn::Type) -> Res<Ty> {
    match t {
        syn::Type::Paren(p) => type_of(&p.elem),
        syn::Type::Path(p) if is_plain(p, "usize") => Ok(Ty::Usize),
        syn::Type::Path(p) if is_plain(p, "bool") => Ok(Ty::Bool),
        syn::Type::Path(p) if is_plain(p, "T") => Ok(Ty::Elem),
        syn::Type::Path(p) if p.qself.is_none() => {
            let s = match last_seg(&p.path) {
                Some(s) => s,
                None => return unsupported("empty type path", t.span()),
            };
            let args: Vec<&syn::Type> = match &s.arguments {
                syn::PathArguments::AngleBracketed(a) => a
                    .args
                    .iter()
                    .map(|g| match g {
                        syn::GenericArgument::Type(t) => Ok(t),
                        other => unsupported("generic argument that is not a type", other.span()),
                    })
                    .collect::<Res<Vec<_>>>()?,
                syn::PathArguments::None => vec![],
                _ => return unsupported("parenthesised type arguments", t.span()),
            };
            match (s.ident.to_string().as_str(), args.as_slice()) {
                ("Option", [x]) => Ok(Ty::Opt(Box::new(type_of(x)?))),
                ("Result", [a, b]) => match (type_of(a)?, type_of(b)?) {
                    (Ty::Unit, Ty::Elem) => Ok(Ty::ResUnitElem),
                    _ => unsupported("Result other than Result<(), T>", t.span()),
                },
                ("Range", [a]) if type_of(a)? == Ty::Usize => Ok(Ty::Range),
                _ => unsupported(&format!("type `{}`", quote::ToTokens::to_token_stream(t)), t.span()),
            }
        }
        syn::Type::Reference(r) => match &*r.elem {
            e if is_slot_type(e) => Ok(Ty::Ref),
            syn::Type::Slice(s) if is_slot_type(&s.elem) => Ok(Ty::Slice),
            _ => unsupported(&format!("reference type `{}`", quote::ToTokens::to_token_stream(t)), t.span()),
        },
        syn::Type::Tuple(tt) => {
            let v = tt.elems.iter().map(type_of).collect::<Res<Vec<_>>>()?;
            Ok(if v.is_empty() { Ty::Unit } else { Ty::Tuple(v) })
        }
        _ => unsupported(&format!("type `{}`", quote::ToTokens::to_token_stream(t)), t.span()),
    }
}

fn is_self(e: &Expr) -> bool {
    matches!(e, Expr::Path(p) if p.qself.is_none() && p.path.is_ident("self"))
}

/// `self.<field>`
fn self_field(e: &Expr) -> Option<String> {
    match e {
        Expr::Paren(p) => self_field(&p.expr),
        Expr::Field(f) if is_self(&f.base) => match &f.member {
            syn::Member::Named(n) => Some(n.to_string()),
            _ => None,
        },
        _ => None,
    }
}

fn is_empty_array(e: &Expr) -> bool {
    match e {
        Expr::Paren(p) => is_empty_array(&p.expr),
        Expr::Array(a) => a.elems.is_empty() && a.attrs.is_empty(),
        _ => false,
    }
}

fn describe(e: &Expr) -> String {
    let dbg = format!("{:?}", e);
    let kind = dbg.split(|c: char| !c.is_alphanumeric() && c != ':').next().unwrap_or("expression");
    format!("expression of kind {}", kind)
}

impl<'a> Tr<'a> {
    fn fresh(&mut self) -> String {
        loop {
            self.counter += 1;
            let n = format!("t{}", self.counter);
            if !self.used.contains(&n) {
                self.used.insert(n.clone());
                return n;
            }
        }
    }

    /// the Coq name of a Rust variable: the name with a prime. No keyword,
    /// constructor (`left`, `end`, ...) or name of the model ends in a prime, and
    /// the temporaries `t<n>` do not either, so nothing can be captured.
    pub fn coq_ident(&mut self, id: &syn::Ident) -> Res<String> {
        let s = id.to_string();
        let s = s.strip_prefix("r#").unwrap_or(&s).to_string();
        if !s.chars().all(|c| c.is_ascii_alphanumeric() || c == '_') || s.is_empty() || s == "_" {
            return unsupported(&format!("identifier `{}`", s), id.span());
        }
        Ok(format!("{}'", s))
    }

    // ------------------------------------------------------------ values

    /// evaluate to a pure value; what must run first goes to `pre`
    fn val(&mut self, e: &Expr, env: &Env, pre: &mut Vec<Pre>) -> Res<Val> {
        let c = self.comp(e, env, pre, false)?;
        self.bind_val(c, pre, e.span())
    }

    fn bind_val(&mut self, c: Comp, pre: &mut Vec<Pre>, sp: Span) -> Res<Val> {
        match c {
            Comp::Ret(v) => Ok(v),
            c => {
                let ty = c.ty();
                if ty == Ty::Unit {
                    return unsupported("unit-valued expression used as a value", sp);
                }
                let harmless =
                    matches!(&c, Comp::Op(f, a, _) if a.is_empty() && ["get_size", "get_start", "get_cap", "items_slice"].contains(&f.as_str()));
                let n = self.fresh();
                pre.push(Pre::Bind(Some(n.clone()), c, harmless));
                Ok(Val::atom(n, ty))
            }
        }
    }

    fn typed(&mut self, e: &Expr, env: &Env, pre: &mut Vec<Pre>, want: &Ty, what: &str) -> Res<Val> {
        let v = self.val(e, env, pre)?;
        if !v.ty.compat(want) {
            return Err(format!(
                "{}: {} has type {}, expected {}",
                at(e.span()), what, v.ty.show(), want.show()
            ));
        }
        Ok(v)
    }

    /// `a..b`, `..b`, `a..`, `..`: the two bounds, `None` where absent
    fn range_bounds(
        &mut self,
        r: &syn::ExprRange,
        env: &Env,
        pre: &mut Vec<Pre>,
    ) -> Res<(Option<Val>, Option<Val>)> {
        no_attrs(&r.attrs, r.span())?;
        if !matches!(r.limits, syn::RangeLimits::HalfOpen(_)) {
            return unsupported("inclusive range `..=`", r.span());
        }
        let a = match &r.start {
            Some(e) => Some(self.typed(e, env, pre, &Ty::Usize, "range start")?),
            None => None,
        };
        let b = match &r.end {
            Some(e) => Some(self.typed(e, env, pre, &Ty::Usize, "range end")?),
            None => None,
        };
        Ok((a, b))
    }

    /// `&base[index]` / `&mut base[index]` (also `base[index]` as an auto-referenced receiver)
    fn index_ref(&mut self, ix: &syn::ExprIndex, env: &Env, pre: &mut Vec<Pre>) -> Res<Comp> {
        no_attrs(&ix.attrs, ix.span())?;
        let range = match &*ix.index {
            Expr::Range(r) => Some(r),
            Expr::Paren(p) => match &*p.expr {
                Expr::Range(r) => Some(r),
                _ => None,
            },
            _ => None,
        };
        if is_empty_array(&ix.expr) {
            // `[][..]`: the empty slice
            return match range {
                Some(r) if r.start.is_none() && r.end.is_none() => Ok(Comp::Ret(Val::atom("empty_slice", Ty::Slice))),
                _ => unsupported("indexing of an empty array literal other than `[][..]`", ix.span()),
            };
        }
        let items = self_field(&ix.expr).as_deref() == Some("items");
        if items && range.is_none() {
            let i = self.typed(&ix.index, env, pre, &Ty::Usize, "array index")?;
            return Ok(Comp::Op("idx".into(), vec![i], Ty::Ref));
        }
        let base = if items {
            let n = self.fresh();
            pre.push(Pre::Bind(Some(n.clone()), Comp::Op("items_slice".into(), vec![], Ty::Slice), true));
            Val::atom(n, Ty::Slice)
        } else {
            self.typed(&ix.expr, env, pre, &Ty::Slice, "indexed expression")?
        };
        match range {
            None => {
                let i = self.typed(&ix.index, env, pre, &Ty::Usize, "slice index")?;
                Ok(Comp::Op("sl_index".into(), vec![base, i], Ty::Ref))
            }
            Some(r) => {
                let (a, b) = self.range_bounds(r, env, pre)?;
                if a.is_none() && b.is_none() {
                    return Ok(Comp::Ret(base));
                }
                let a = a.unwrap_or_else(|| Val::atom("0", Ty::Usize));
                let b = b.unwrap_or_else(|| Val::app(format!("slen {}", base.paren()), Ty::Usize));
                Ok(Comp::Op("sl_range".into(), vec![base, a, b], Ty::Slice))
            }
        }
    }

    fn call_known(&mut self, name: &str, args: Vec<Val>, sp: Span) -> Res<Comp> {
        let sig = self.sigs.get(name).expect("caller checked").clone();
        if args.len() != sig.params.len() {
            return unsupported(&format!("call of `{}` with {} argument(s)", name, args.len()), sp);
        }
        for (a, (pn, pt)) in args.iter().zip(sig.params.iter()) {
            if !a.ty.compat(pt) {
                return Err(format!(
                    "{}: argument `{}` of `{}` receives a {}, expected {}",
                    at(sp), pn, name, a.ty.show(), pt.show()
                ));
            }
        }
        if !self.done.contains(name) {
            self.need = Some(name.to_string());
            return Err(format!("{}: call of `{}`, which has to be translated first", at(sp), name));
        }
        self.calls.insert(name.to_string());
        let mut flat = vec![];
        for a in args {
            match (&a.ty, &a.parts) {
                (Ty::Range, Some(p)) => flat.extend(p.iter().cloned()),
                (Ty::Range, None) => return unsupported("range argument whose bounds are not known", sp),
                _ => flat.push(a),
            }
        }
        Ok(Comp::Op(format!("gen_{}", name), flat, sig.ret.clone()))
    }

    // ------------------------------------------------------------ expressions

    /// the machine computation an expression stands for; operands go to `pre`.
    /// `tail`: the value of this expression is the value of the function.
    fn comp(&mut self, e: &Expr, env: &Env, pre: &mut Vec<Pre>, tail: bool) -> Res<Comp> {
        match e {
            Expr::Paren(p) => {
                no_attrs(&p.attrs, p.span())?;
                self.comp(&p.expr, env, pre, tail)
            }
            Expr::Group(g) => {
                no_attrs(&g.attrs, g.span())?;
                self.comp(&g.expr, env, pre, tail)
            }
            Expr::Lit(l) => {
                no_attrs(&l.attrs, l.span())?;
                match &l.lit {
                    Lit::Int(i) => {
                        if !(i.suffix().is_empty() || i.suffix() == "usize") {
                            return unsupported(&format!("integer literal with suffix `{}`", i.suffix()), l.span());
                        }
                        let v: u128 = i
                            .base10_parse()
                            .map_err(|_| format!("{}: integer literal out of range", at(l.span())))?;
                        if v > u64::MAX as u128 {
                            return Err(format!("{}: integer literal does not fit in a 64-bit usize", at(l.span())));
                        }
                        Ok(Comp::Ret(Val::atom(v.to_string(), Ty::Usize)))
                    }
                    Lit::Bool(b) => Ok(Comp::Ret(Val::atom(if b.value { "true" } else { "false" }, Ty::Bool))),
                    _ => unsupported("literal that is neither an integer nor a boolean", l.span()),
                }
            }
            Expr::Path(p) => {
                no_attrs(&p.attrs, p.span())?;
                let segs = path_segments(p)?;
                let segs: Vec<&str> = segs.iter().map(|s| s.as_str()).collect();
                match segs.as_slice() {
                    [x] if env.contains_key(*x) => Ok(Comp::Ret(env[*x].clone())),
                    ["N"] if self.method => Ok(Comp::Op("get_cap".into(), vec![], Ty::Usize)),
                    ["None"] => Ok(Comp::Ret(Val::atom("None", Ty::Opt(Box::new(Ty::Any))))),
                    ["self"] => unsupported("`self` used as a value", p.span()),
                    [x] => Err(format!("{}: unknown variable or constant `{}`", at(p.span()), x)),
                    ["usize", "MAX"] => Ok(Comp::Ret(Val::atom("usize_max", Ty::Usize))),
                    ["usize", "MIN"] => Ok(Comp::Ret(Val::atom("0", Ty::Usize))),
                    _ => unsupported(&format!("path `{}`", segs.join("::")), p.span()),
                }
            }
            Expr::Field(f) => {
                no_attrs(&f.attrs, f.span())?;
                let member = match &f.member {
                    syn::Member::Named(n) => n.to_string(),
                    syn::Member::Unnamed(_) => return unsupported("tuple field access", f.span()),
                };
                if is_self(&f.base) {
                    if !self.method {
                        return unsupported("`self` in a free function", f.span());
                    }
                    return match member.as_str() {
                        "size" => Ok(Comp::Op("get_size".into(), vec![], Ty::Usize)),
                        "start" => Ok(Comp::Op("get_start".into(), vec![], Ty::Usize)),
                        "items" => unsupported("`self.items` used as a value (only indexing, split_at, rotate_left, as_mut_ptr are known)", f.span()),
                        m => unsupported(&format!("field `self.{}`", m), f.span()),
                    };
                }
                let b = self.val(&f.base, env, pre)?;
                match (&b.ty, &b.parts, member.as_str()) {
                    (Ty::Range, Some(p), "start") => Ok(Comp::Ret(p[0].clone())),
                    (Ty::Range, Some(p), "end") => Ok(Comp::Ret(p[1].clone())),
                    _ => unsupported(&format!("field `{}` of a {}", member, b.ty.show()), f.span()),
                }
            }
            Expr::Cast(c) => {
                no_attrs(&c.attrs, c.span())?;
                let v = self.val(&c.expr, env, pre)?;
                let target = type_of(&c.ty)?;
                match (&v.ty, &target) {
                    (Ty::Bool, Ty::Usize) => Ok(Comp::Ret(Val::app(format!("b2z {}", v.paren()), Ty::Usize))),
                    (Ty::Usize, Ty::Usize) | (Ty::Bool, Ty::Bool) => Ok(Comp::Ret(v)),
                    _ => unsupported(&format!("cast from {} to {}", v.ty.show(), target.show()), c.span()),
                }
            }
            Expr::Unary(u) => {
                no_attrs(&u.attrs, u.span())?;
                let v = self.val(&u.expr, env, pre)?;
                match (&u.op, &v.ty) {
                    (UnOp::Not(_), Ty::Bool) => Ok(Comp::Ret(Val::app(format!("negb {}", v.paren()), Ty::Bool))),
                    _ => unsupported(&format!("unary operator on {}", v.ty.show()), u.span()),
                }
            }
            Expr::Binary(b) => self.binary(b, env, pre),
            Expr::Assign(a) => {
                no_attrs(&a.attrs, a.span())?;
                let setter = match self_field(&a.left).as_deref() {
                    Some("size") => "set_size",
                    Some("start") => "set_start",
                    _ => return unsupported("assignment to something other than self.size / self.start", a.left.span()),
                };
                let v = self.typed(&a.right, env, pre, &Ty::Usize, "assigned value")?;
                Ok(Comp::Op(setter.into(), vec![v], Ty::Unit))
            }
            Expr::Reference(r) => {
                no_attrs(&r.attrs, r.span())?;
                match &*r.expr {
                    Expr::Index(ix) => self.index_ref(ix, env, pre),
                    x if is_empty_array(x) => Ok(Comp::Ret(Val::atom("empty_slice", Ty::Slice))),
                    other => unsupported(
                        "`&` / `&mut` of something other than an indexing expression or `[]`",
                        other.span(),
                    ),
                }
            }
            // a place used through auto-ref (method receiver): the slot
            Expr::Index(ix) => self.index_ref(ix, env, pre),
            Expr::Range(r) => {
                let (a, b) = self.range_bounds(r, env, pre)?;
                match (a, b) {
                    (Some(a), Some(b)) => Ok(Comp::Ret(Val {
                        tm: format!("({}, {})", a.tm, b.tm),
                        ty: Ty::Range,
                        atomic: true,
                        parts: Some(vec![a, b]),
                        ptr_base: false,
                    })),
                    _ => unsupported("range value without both bounds", r.span()),
                }
            }
            Expr::Tuple(t) => {
                no_attrs(&t.attrs, t.span())?;
                if t.elems.is_empty() {
                    return Ok(Comp::unit());
                }
                if t.elems.len() < 2 {
                    return unsupported("1-tuple expression", t.span());
                }
                let mut vs = vec![];
                for x in &t.elems {
                    let v = self.val(x, env, pre)?;
                    if v.ty == Ty::Range {
                        return unsupported("range inside a tuple", x.span());
                    }
                    vs.push(v);
                }
                Ok(Comp::Ret(Val {
                    tm: format!("({})", vs.iter().map(|v| v.tm.clone()).collect::<Vec<_>>().join(", ")),
                    ty: Ty::Tuple(vs.iter().map(|v| v.ty.clone()).collect()),
                    atomic: true,
                    parts: Some(vs),
                    ptr_base: false,
                }))
            }
            Expr::Call(c) => self.call(c, env, pre),
            Expr::MethodCall(m) => self.method_call(m, env, pre),
            Expr::Try(t) => {
                no_attrs(&t.attrs, t.span())?;
                let v = self.val(&t.expr, env, pre)?;
                let inner = match &v.ty {
                    Ty::Opt(i) if **i != Ty::Any => (**i).clone(),
                    other => return unsupported(&format!("`?` on a {}", other.show()), t.span()),
                };
                if !self.can_return {
                    return unsupported("`?` inside a nested expression (it leaves the function)", t.span());
                }
                if !matches!(self.ret_ty, Ty::Opt(_)) {
                    return unsupported("`?` on an Option in a function that does not return an Option", t.span());
                }
                let n = self.fresh();
                pre.push(Pre::Try(n.clone(), v));
                Ok(Comp::Ret(Val::atom(n, inner)))
            }
            Expr::If(i) => {
                no_attrs(&i.attrs, i.span())?;
                if matches!(&*i.cond, Expr::Let(_)) {
                    return unsupported("if let", i.span());
                }
                let c = self.typed(&i.cond, env, pre, &Ty::Bool, "condition")?;
                let (a, _) = self.block(&i.then_branch.stmts, env.clone(), tail)?;
                let b = match &i.else_branch {
                    Some((_, e)) => {
                        let saved = self.can_return;
                        self.can_return = saved && tail;
                        let mut bpre = vec![];
                        let b = self.comp(e, env, &mut bpre, tail);
                        self.can_return = saved;
                        wrap(bpre, b?)
                    }
                    None => Comp::unit(),
                };
                let (ta, tb) = (a.ty(), b.ty());
                if !ta.compat(&tb) {
                    return unsupported(
                        &format!("`if` whose branches have types {} and {}", ta.show(), tb.show()),
                        i.span(),
                    );
                }
                Ok(Comp::If(c, Box::new(a), Box::new(b), ta.join(&tb)))
            }
            Expr::Block(b) => {
                no_attrs(&b.attrs, b.span())?;
                if b.label.is_some() {
                    return unsupported("labelled block", b.span());
                }
                let (c, _) = self.block(&b.block.stmts, env.clone(), tail)?;
                Ok(c)
            }
            Expr::Unsafe(u) => {
                no_attrs(&u.attrs, u.span())?;
                let (c, _) = self.block(&u.block.stmts, env.clone(), tail)?;
                Ok(c)
            }
            Expr::Return(r) => Err(format!(
                "{}: `return` inside an expression is not supported (only as a statement)",
                at(r.span())
            )),
            Expr::Macro(m) => unsupported(
                &format!(
                    "macro `{}!` in expression position",
                    m.mac.path.segments.iter().map(|s| s.ident.to_string()).collect::<Vec<_>>().join("::")
                ),
                m.span(),
            ),
            other => unsupported(&describe(other), other.span()),
        }
    }

    fn binary(&mut self, b: &syn::ExprBinary, env: &Env, pre: &mut Vec<Pre>) -> Res<Comp> {
        no_attrs(&b.attrs, b.span())?;
        match b.op {
            BinOp::And(_) | BinOp::Or(_) => {
                let l = self.typed(&b.left, env, pre, &Ty::Bool, "operand of `&&` / `||`")?;
                let mut rpre = vec![];
                let r = self.typed(&b.right, env, &mut rpre, &Ty::Bool, "operand of `&&` / `||`")?;
                // the right operand is only evaluated sometimes: it may read the
                // state but must not be able to fail or write
                if !rpre.iter().all(|p| p.harmless()) {
                    return unsupported(
                        "short-circuit operator whose right operand performs checked arithmetic or a call",
                        b.span(),
                    );
                }
                pre.append(&mut rpre);
                let op = if matches!(b.op, BinOp::And(_)) { "&&" } else { "||" };
                Ok(Comp::Ret(Val::app(format!("{} {} {}", l.paren(), op, r.paren()), Ty::Bool)))
            }
            BinOp::Lt(_) | BinOp::Le(_) | BinOp::Gt(_) | BinOp::Ge(_) | BinOp::Eq(_) | BinOp::Ne(_) => {
                // both operands are evaluated, left first; the comparison itself is pure
                let l = self.val(&b.left, env, pre)?;
                let r = self.val(&b.right, env, pre)?;
                if l.ty != r.ty {
                    return unsupported("comparison of values of different types", b.span());
                }
                let (lp, rp) = (l.paren(), r.paren());
                let tm = match (&b.op, &l.ty) {
                    (BinOp::Lt(_), Ty::Usize) => format!("{} <? {}", lp, rp),
                    (BinOp::Le(_), Ty::Usize) => format!("{} <=? {}", lp, rp),
                    // a > b is b < a, a >= b is b <= a (same truth value on Z)
                    (BinOp::Gt(_), Ty::Usize) => format!("{} <? {}", rp, lp),
                    (BinOp::Ge(_), Ty::Usize) => format!("{} <=? {}", rp, lp),
                    (BinOp::Eq(_), Ty::Usize) => format!("{} =? {}", lp, rp),
                    (BinOp::Ne(_), Ty::Usize) => format!("negb ({} =? {})", lp, rp),
                    (BinOp::Eq(_), Ty::Bool) => format!("Bool.eqb {} {}", lp, rp),
                    (BinOp::Ne(_), Ty::Bool) => format!("xorb {} {}", lp, rp),
                    _ => return unsupported(&format!("comparison on {}", l.ty.show()), b.span()),
                };
                Ok(Comp::Ret(Val::app(tm, Ty::Bool)))
            }
            BinOp::Add(_) | BinOp::Sub(_) | BinOp::Mul(_) | BinOp::Rem(_) => {
                let op = match b.op {
                    BinOp::Add(_) => "uadd",
                    BinOp::Sub(_) => "usub",
                    BinOp::Mul(_) => "umul",
                    _ => "urem",
                };
                let l = self.typed(&b.left, env, pre, &Ty::Usize, "arithmetic operand")?;
                let r = self.typed(&b.right, env, pre, &Ty::Usize, "arithmetic operand")?;
                Ok(Comp::Op(op.into(), vec![l, r], Ty::Usize))
            }
            BinOp::AddAssign(_) | BinOp::SubAssign(_) => {
                // for a primitive type the right operand is evaluated first, then the place is read
                let (getter, setter) = match self_field(&b.left).as_deref() {
                    Some("size") => ("get_size", "set_size"),
                    Some("start") => ("get_start", "set_start"),
                    _ => return unsupported("compound assignment to something other than self.size / self.start", b.left.span()),
                };
                let r = self.typed(&b.right, env, pre, &Ty::Usize, "arithmetic operand")?;
                let cur = self.fresh();
                pre.push(Pre::Bind(Some(cur.clone()), Comp::Op(getter.into(), vec![], Ty::Usize), true));
                let op = if matches!(b.op, BinOp::AddAssign(_)) { "uadd" } else { "usub" };
                let v = self.fresh();
                pre.push(Pre::Bind(
                    Some(v.clone()),
                    Comp::Op(op.into(), vec![Val::atom(cur, Ty::Usize), r], Ty::Usize),
                    false,
                ));
                Ok(Comp::Op(setter.into(), vec![Val::atom(v, Ty::Usize)], Ty::Unit))
            }
            _ => unsupported("binary operator (only + - * % < <= > >= == != && || += -= are known)", b.span()),
        }
    }

    fn call(&mut self, c: &syn::ExprCall, env: &Env, pre: &mut Vec<Pre>) -> Res<Comp> {
        no_attrs(&c.attrs, c.span())?;
        let f = match &*c.func {
            Expr::Path(p) => path_segments(p)?,
            other => return unsupported("call of something that is not a plain function name", other.span()),
        };
        let f: Vec<&str> = f.iter().map(|s| s.as_str()).collect();
        let nargs = c.args.len();
        match (f.as_slice(), nargs) {
            (["Some"], 1) => {
                let v = self.val(&c.args[0], env, pre)?;
                if matches!(v.ty, Ty::Range | Ty::Unit) {
                    return unsupported(&format!("Some of a {}", v.ty.show()), c.span());
                }
                let ty = Ty::Opt(Box::new(v.ty.clone()));
                Ok(Comp::Ret(Val::app(format!("Some {}", v.paren()), ty)))
            }
            (["Err"], 1) => {
                let v = self.typed(&c.args[0], env, pre, &Ty::Elem, "payload of Err")?;
                Ok(Comp::Ret(Val::app(format!("Some {}", v.paren()), Ty::ResUnitElem)))
            }
            (["Ok"], 1) => match &c.args[0] {
                Expr::Tuple(t) if t.elems.is_empty() => Ok(Comp::Ret(Val::atom("None", Ty::ResUnitElem))),
                other => unsupported("Ok(..) of something other than ()", other.span()),
            },
            (["slice_assume_init_ref"], 1) | (["slice_assume_init_mut"], 1) => {
                // a cast of the element type (checked in main.rs): the same view
                let v = self.typed(&c.args[0], env, pre, &Ty::Slice, "argument of slice_assume_init_*")?;
                Ok(Comp::Ret(v))
            }
            (["mem", "replace"], 2) | (["core", "mem", "replace"], 2) => {
                let d = self.typed(&c.args[0], env, pre, &Ty::Ref, "destination of mem::replace")?;
                let v = self.typed(&c.args[1], env, pre, &Ty::Elem, "new value of mem::replace")?;
                Ok(Comp::Op("gen_mem_replace".into(), vec![d, v], Ty::Elem))
            }
            (["ptr", "copy"], 3) | (["core", "ptr", "copy"], 3) => {
                let s = self.typed(&c.args[0], env, pre, &Ty::Ptr, "source of ptr::copy")?;
                let d = self.typed(&c.args[1], env, pre, &Ty::Ptr, "destination of ptr::copy")?;
                let n = self.typed(&c.args[2], env, pre, &Ty::Usize, "count of ptr::copy")?;
                Ok(Comp::Op("raw_copy".into(), vec![s, d, n], Ty::Unit))
            }
            (["ptr", "swap_nonoverlapping"], 3) | (["core", "ptr", "swap_nonoverlapping"], 3) => {
                let a = self.typed(&c.args[0], env, pre, &Ty::Ref, "operand of ptr::swap_nonoverlapping")?;
                let b = self.typed(&c.args[1], env, pre, &Ty::Ref, "operand of ptr::swap_nonoverlapping")?;
                let n = self.typed(&c.args[2], env, pre, &Ty::Usize, "count of ptr::swap_nonoverlapping")?;
                if n.tm != "1" {
                    return unsupported("ptr::swap_nonoverlapping with a count other than the literal 1", c.span());
                }
                Ok(Comp::Op("gen_swap_nonoverlapping".into(), vec![a, b], Ty::Unit))
            }
            ([name], _) | (["crate", name], _) | (["self", name], _)
                if self.sigs.get(*name).map(|s| !s.method).unwrap_or(false) =>
            {
                let mut args = vec![];
                for a in &c.args {
                    args.push(self.val(a, env, pre)?);
                }
                self.call_known(name, args, c.span())
            }
            _ => unsupported(&format!("call of `{}` with {} argument(s)", f.join("::"), nargs), c.span()),
        }
    }

    fn method_call(&mut self, m: &syn::ExprMethodCall, env: &Env, pre: &mut Vec<Pre>) -> Res<Comp> {
        no_attrs(&m.attrs, m.span())?;
        if m.turbofish.is_some() {
            return unsupported("method call with turbofish", m.span());
        }
        let name = m.method.to_string();
        let nargs = m.args.len();
        // a method of the buffer itself
        if is_self(&m.receiver) {
            if !self.method {
                return unsupported("`self` in a free function", m.span());
            }
            if let Some(ext) = self.exts.get(name.as_str()) {
                if !self.sigs.contains_key(&name) || !self.done.contains(&name) {
                    // not translated: the caller is rendered relative to the hand-written model
                    if nargs != ext.params.len() {
                        return unsupported(&format!("call of `{}` with {} argument(s)", name, nargs), m.span());
                    }
                    let mut args = vec![];
                    for (a, t) in m.args.iter().zip(ext.params.iter()) {
                        let v = self.typed(a, env, pre, t, "argument")?;
                        match (&v.ty, &v.parts) {
                            (Ty::Range, Some(p)) => args.extend(p.iter().cloned()),
                            (Ty::Range, None) => return unsupported("range argument whose bounds are not known", a.span()),
                            _ => args.push(v),
                        }
                    }
                    self.ext_calls.insert(name.clone());
                    return Ok(Comp::Op(ext.coq.to_string(), args, ext.ret.clone()));
                }
            }
            return match self.sigs.get(&name) {
                Some(s) if s.method => {
                    let mut args = vec![];
                    for a in &m.args {
                        args.push(self.val(a, env, pre)?);
                    }
                    self.call_known(&name, args, m.span())
                }
                _ => unsupported(&format!("call of the method `self.{}` (not one of the translated functions)", name), m.span()),
            };
        }
        // a method of the items array
        if self_field(&m.receiver).as_deref() == Some("items") {
            if !self.method {
                return unsupported("`self` in a free function", m.span());
            }
            return match (name.as_str(), nargs) {
                ("split_at", 1) | ("split_at_mut", 1) => {
                    let it = self.fresh();
                    pre.push(Pre::Bind(Some(it.clone()), Comp::Op("items_slice".into(), vec![], Ty::Slice), true));
                    let k = self.typed(&m.args[0], env, pre, &Ty::Usize, "argument of split_at")?;
                    Ok(Comp::Op(
                        "sl_split_at".into(),
                        vec![Val::atom(it, Ty::Slice), k],
                        Ty::Tuple(vec![Ty::Slice, Ty::Slice]),
                    ))
                }
                ("rotate_left", 1) => {
                    let k = self.typed(&m.args[0], env, pre, &Ty::Usize, "argument of rotate_left")?;
                    Ok(Comp::Op("gen_rotate_left".into(), vec![k], Ty::Unit))
                }
                ("as_mut_ptr", 0) | ("as_ptr", 0) => Ok(Comp::Ret(Val {
                    tm: "0".into(),
                    ty: Ty::Ptr,
                    atomic: true,
                    parts: None,
                    ptr_base: true,
                })),
                _ => unsupported(&format!("method `{}` of self.items with {} argument(s)", name, nargs), m.span()),
            };
        }
        let recv = self.val(&m.receiver, env, pre)?;
        let mut args = vec![];
        for a in &m.args {
            args.push(self.val(a, env, pre)?);
        }
        let all_usize = recv.ty == Ty::Usize && args.iter().all(|a| a.ty == Ty::Usize);
        let bin = |f: &str, ty: Ty| -> Res<Comp> {
            Ok(Comp::Ret(Val::app(format!("{} {} {}", f, recv.paren(), args[0].paren()), ty)))
        };
        match (&recv.ty, name.as_str(), nargs) {
            (Ty::Usize, "overflowing_add", 1) if all_usize => {
                bin("overflowing_add", Ty::Tuple(vec![Ty::Usize, Ty::Bool]))
            }
            (Ty::Usize, "checked_add", 1) if all_usize => bin("checked_add", Ty::Opt(Box::new(Ty::Usize))),
            (Ty::Usize, "checked_sub", 1) if all_usize => bin("checked_sub", Ty::Opt(Box::new(Ty::Usize))),
            (Ty::Usize, "wrapping_add", 1) if all_usize => Ok(Comp::Ret(Val::app(
                format!("({} + {}) mod W", recv.paren(), args[0].paren()),
                Ty::Usize,
            ))),
            (Ty::Usize, "wrapping_sub", 1) if all_usize => Ok(Comp::Ret(Val::app(
                format!("({} - {}) mod W", recv.paren(), args[0].paren()),
                Ty::Usize,
            ))),
            (Ty::Usize, "min", 1) if all_usize => bin("Z.min", Ty::Usize),
            (Ty::Usize, "max", 1) if all_usize => bin("Z.max", Ty::Usize),
            // a reference to a slot is the slot: MaybeUninit<T> -> T changes nothing
            (Ty::Ref, "assume_init_ref", 0) | (Ty::Ref, "assume_init_mut", 0) => Ok(Comp::Ret(recv)),
            (Ty::Ref, "assume_init_read", 0) => Ok(Comp::Op("read_slot".into(), vec![recv], Ty::Elem)),
            (Ty::Ref, "write", 1) if args[0].ty == Ty::Elem => {
                Ok(Comp::Op("write_slot".into(), vec![recv, args[0].clone()], Ty::Unit))
            }
            (Ty::Ptr, "add", 1) if args[0].ty == Ty::Usize => {
                let k = &args[0];
                if recv.ptr_base {
                    Ok(Comp::Ret(Val { tm: k.tm.clone(), ty: Ty::Ptr, atomic: k.atomic, parts: None, ptr_base: false }))
                } else {
                    Ok(Comp::Ret(Val::app(format!("{} + {}", recv.paren(), k.paren()), Ty::Ptr)))
                }
            }
            (Ty::Slice, "split_at", 1) | (Ty::Slice, "split_at_mut", 1) if args[0].ty == Ty::Usize => Ok(Comp::Op(
                "sl_split_at".into(),
                vec![recv, args[0].clone()],
                Ty::Tuple(vec![Ty::Slice, Ty::Slice]),
            )),
            (Ty::Range, "is_empty", 0) if recv.parts.is_some() => {
                let p = recv.parts.as_ref().unwrap();
                Ok(Comp::Ret(Val::app(format!("{} <=? {}", p[1].paren(), p[0].paren()), Ty::Bool)))
            }
            (Ty::Slice, "len", 0) => Ok(Comp::Ret(Val::app(format!("slen {}", recv.paren()), Ty::Usize))),
            _ => unsupported(
                &format!("method `{}` on a {} with {} argument(s)", name, recv.ty.show(), nargs),
                m.span(),
            ),
        }
    }

    // ------------------------------------------------------------ statements

    fn bind_pattern(&mut self, p: &Pat, v: &Val, env: &mut Env) -> Res<String> {
        match p {
            Pat::Ident(pi) => {
                no_attrs(&pi.attrs, pi.span())?;
                if pi.by_ref.is_some() || pi.mutability.is_some() || pi.subpat.is_some() {
                    return unsupported("`mut`, `ref` or `@` binding", pi.span());
                }
                let n = self.coq_ident(&pi.ident)?;
                env.insert(pi.ident.to_string(), Val::atom(n.clone(), v.ty.clone()));
                Ok(n)
            }
            Pat::Wild(_) => Ok("_".into()),
            Pat::Paren(pp) => self.bind_pattern(&pp.pat, v, env),
            Pat::Type(pt) => {
                no_attrs(&pt.attrs, pt.span())?;
                let t = type_of(&pt.ty)?;
                if !t.compat(&v.ty) {
                    return Err(format!(
                        "{}: binding annotated {} receives a value of type {}",
                        at(pt.span()), t.show(), v.ty.show()
                    ));
                }
                self.bind_pattern(&pt.pat, v, env)
            }
            Pat::Tuple(pt) => {
                no_attrs(&pt.attrs, pt.span())?;
                let tys = match &v.ty {
                    Ty::Tuple(t) if t.len() == pt.elems.len() => t.clone(),
                    _ => return unsupported(&format!("tuple pattern against {}", v.ty.show()), pt.span()),
                };
                let mut names = vec![];
                for (q, t) in pt.elems.iter().zip(tys.iter()) {
                    match q {
                        Pat::Ident(_) | Pat::Wild(_) => {
                            names.push(self.bind_pattern(q, &Val::atom("_", t.clone()), env)?)
                        }
                        _ => return unsupported("nested pattern", q.span()),
                    }
                }
                Ok(format!("'({})", names.join(", ")))
            }
            other => unsupported("pattern (only names, `_` and flat tuples are known)", other.span()),
        }
    }

    fn assertion(&mut self, mac: &syn::Macro, env: &Env, pre: &mut Vec<Pre>) -> Res<()> {
        let name = mac.path.segments.iter().map(|s| s.ident.to_string()).collect::<Vec<_>>().join("::");
        let (op, ncond) = match name.as_str() {
            "debug_assert" => ("dassert", 1),
            "assert" => ("assert_", 1),
            "debug_assert_eq" | "debug_assert_ne" => ("dassert", 2),
            "assert_eq" | "assert_ne" => ("assert_", 2),
            _ => return unsupported(&format!("macro `{}!`", name), mac.span()),
        };
        let args: Vec<Expr> = mac
            .parse_body_with(syn::punctuated::Punctuated::<Expr, syn::Token![,]>::parse_terminated)
            .map_err(|e| format!("{}: cannot parse the arguments of {}!: {}", at(mac.span()), name, e))?
            .into_iter()
            .collect();
        if args.len() < ncond {
            return unsupported("assertion without a condition", mac.span());
        }
        // a message is only evaluated when the assertion fails; a plain string is harmless
        match &args[ncond..] {
            [] => {}
            [Expr::Lit(l)] if matches!(l.lit, Lit::Str(_)) => {}
            _ => return unsupported("assertion message with format arguments", mac.span()),
        }
        let mut own: Vec<Pre> = vec![];
        let cond = if ncond == 1 {
            self.typed(&args[0], env, &mut own, &Ty::Bool, "asserted condition")?
        } else {
            let a = self.typed(&args[0], env, &mut own, &Ty::Usize, "operand of assert_eq / assert_ne")?;
            let b = self.typed(&args[1], env, &mut own, &Ty::Usize, "operand of assert_eq / assert_ne")?;
            let eq = format!("{} =? {}", a.paren(), b.paren());
            if name.ends_with("_ne") {
                Val::app(format!("negb ({})", eq), Ty::Bool)
            } else {
                Val::app(eq, Ty::Bool)
            }
        };
        // a debug assertion is not evaluated at all in a release build: its operands
        // may read the state but must not contain operations that could panic or write
        if op == "dassert" && !own.iter().all(|p| p.harmless()) {
            return unsupported(
                "debug assertion whose condition performs checked arithmetic or a call (not evaluated in release builds)",
                mac.span(),
            );
        }
        pre.append(&mut own);
        pre.push(Pre::Bind(None, Comp::Op(op.into(), vec![cond], Ty::Unit), false));
        Ok(())
    }

    /// a statement list. `tail`: falling off the end of this list (or returning
    /// from inside it) ends the function. The flag in the result says whether
    /// every path through the list ends in `return`.
    pub fn block(&mut self, stmts: &[Stmt], env: Env, tail: bool) -> Res<(Comp, bool)> {
        let saved = self.can_return;
        self.can_return = saved && tail;
        let r = self.block_inner(stmts, env, tail);
        self.can_return = saved;
        r
    }

    fn block_inner(&mut self, stmts: &[Stmt], mut env: Env, tail: bool) -> Res<(Comp, bool)> {
        let mut pre: Vec<Pre> = vec![];
        for (i, st) in stmts.iter().enumerate() {
            let last = i + 1 == stmts.len();
            match st {
                Stmt::Local(l) => {
                    no_attrs(&l.attrs, l.span())?;
                    let init = match &l.init {
                        Some(init) => init,
                        None => return unsupported("`let` without initialiser", l.span()),
                    };
                    if init.diverge.is_some() {
                        return unsupported("let-else", l.span());
                    }
                    let c = self.comp(&init.expr, &env, &mut pre, false)?;
                    match c {
                        // ranges and raw pointers are only names for their bounds / offset
                        Comp::Ret(v) if v.ty == Ty::Range || v.ty == Ty::Ptr => match &l.pat {
                            Pat::Ident(pi) if pi.by_ref.is_none() && pi.mutability.is_none() && pi.subpat.is_none() => {
                                self.coq_ident(&pi.ident)?;
                                env.insert(pi.ident.to_string(), v);
                            }
                            other => return unsupported("pattern binding a range or a raw pointer", other.span()),
                        },
                        Comp::Ret(v) => {
                            let name = self.bind_pattern(&l.pat, &v, &mut env)?;
                            pre.push(Pre::Let(name, v));
                        }
                        c => {
                            let ty = c.ty();
                            if ty == Ty::Unit {
                                return unsupported("`let` of a unit-valued expression", l.span());
                            }
                            let name = self.bind_pattern(&l.pat, &Val::atom("_", ty), &mut env)?;
                            pre.push(Pre::Bind(Some(name), c, false));
                        }
                    }
                }
                Stmt::Macro(m) => {
                    no_attrs(&m.attrs, m.span())?;
                    self.assertion(&m.mac, &env, &mut pre)?;
                }
                Stmt::Item(it) => {
                    return unsupported("item (struct / impl / fn) inside a function body", it.span())
                }
                Stmt::Expr(Expr::Return(r), _) => {
                    no_attrs(&r.attrs, r.span())?;
                    if !tail || !self.can_return {
                        return Err(format!(
                            "{}: `return` from inside a nested expression is not supported",
                            at(r.span())
                        ));
                    }
                    if !last {
                        return Err(format!("{}: code after `return`", at(stmts[i + 1].span())));
                    }
                    let c = match &r.expr {
                        Some(e) => self.comp(e, &env, &mut pre, false)?,
                        None => Comp::unit(),
                    };
                    if !c.ty().compat(&self.ret_ty) {
                        return Err(format!(
                            "{}: `return` of a {} in a function returning {}",
                            at(r.span()), c.ty().show(), self.ret_ty.show()
                        ));
                    }
                    return Ok((wrap(pre, c), true));
                }
                // `if c { ...; return e; }` followed by the rest of the block
                Stmt::Expr(Expr::If(f), _) if !last && f.else_branch.is_none() && tail && ends_in_return(&f.then_branch.stmts) => {
                    no_attrs(&f.attrs, f.span())?;
                    if matches!(&*f.cond, Expr::Let(_)) {
                        return unsupported("if let", f.span());
                    }
                    let c = self.typed(&f.cond, &env, &mut pre, &Ty::Bool, "condition")?;
                    let (a, adiv) = self.block(&f.then_branch.stmts, env.clone(), true)?;
                    if !adiv {
                        return unsupported("`if` statement whose body only sometimes returns", f.span());
                    }
                    let (b, bdiv) = self.block(&stmts[i + 1..], env.clone(), true)?;
                    if !a.ty().compat(&b.ty()) {
                        return Err(format!(
                            "{}: early return of a {} but the rest of the block yields {}",
                            at(f.span()), a.ty().show(), b.ty().show()
                        ));
                    }
                    let ty = a.ty().join(&b.ty());
                    return Ok((wrap(pre, Comp::If(c, Box::new(a), Box::new(b), ty)), bdiv));
                }
                Stmt::Expr(e, semi) => {
                    if last && semi.is_none() {
                        let c = self.comp(e, &env, &mut pre, tail)?;
                        return Ok((wrap(pre, c), false));
                    }
                    // an expression statement: evaluated for its effects, value dropped.
                    // It cannot leave the function (a `return` inside would be refused).
                    let saved = self.can_return;
                    self.can_return = false;
                    let c = self.comp(e, &env, &mut pre, false);
                    self.can_return = saved;
                    let c = c?;
                    match c.ty() {
                        Ty::Unit => {}
                        // values without a destructor may be dropped on the floor
                        Ty::Usize | Ty::Bool | Ty::Ref | Ty::Slice | Ty::Ptr if semi.is_some() => {}
                        t => {
                            return unsupported(
                                &format!("expression statement whose value (a {}) is discarded", t.show()),
                                e.span(),
                            )
                        }
                    }
                    if !matches!(c, Comp::Ret(_)) {
                        pre.push(Pre::Bind(None, c, false));
                    }
                }
            }
        }
        Ok((wrap(pre, Comp::unit()), false))
    }
}

/// does this statement list end in a `return` statement?
fn ends_in_return(stmts: &[Stmt]) -> bool {
    matches!(stmts.last(), Some(Stmt::Expr(Expr::Return(_), _)))
}

/// monad laws applied to the output, for readability only:
///   m ;; ret tt   =  m          (m : M unit)
///   x <- m ;; ret x  =  m
pub fn simplify(c: Comp) -> Comp {
    match c {
        Comp::Bind(n, m, k) => {
            let m = simplify(*m);
            let k = simplify(*k);
            match (&n, &k) {
                (None, Comp::Ret(v)) if v.tm == "tt" && m.ty() == Ty::Unit => m,
                (Some(x), Comp::Ret(v)) if v.atomic && &v.tm == x && !x.starts_with('\'') => m,
                _ => Comp::Bind(n, Box::new(m), Box::new(k)),
            }
        }
        Comp::If(c, a, b, t) => Comp::If(c, Box::new(simplify(*a)), Box::new(simplify(*b)), t),
        Comp::Let(x, v, k) => Comp::Let(x, v, Box::new(simplify(*k))),
        Comp::MatchOpt(v, x, n, s) => Comp::MatchOpt(v, x, Box::new(simplify(*n)), Box::new(simplify(*s))),
        other => other,
    }
}
