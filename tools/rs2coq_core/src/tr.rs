//! The compositional translation: Rust expressions and statements of the
//! bodies of the functions of the crate -> `ir::Comp`.
//!
//! Every construct is rendered the way `theories/*.v` render it by hand:
//!
//!   self.size / self.start (read)        t <- get_size / get_start         (can neither fail nor write)
//!   N                                    t <- get_cap
//!   self.size = e / += e / -= e          set_size v   (after the checked uadd / usub)
//!   a + b, a - b, a * b, a % b           t <- uadd / usub / umul / urem a b   (rustc's order: left first)
//!   debug_assert!(c) / assert!(c)        dassert c / assert_ c
//!   &self.items[i], &mut self.items[i]   idx i                              (the slot's physical index)
//!   &self.items[a..b]                    it <- items_slice;; sl_range it a b
//!   self.items.split_at(_mut)(k)         it <- items_slice;; sl_split_at it k
//!   &x[a..b], &x[..b] on a slice x       sl_range x a b / sl_range x 0 b
//!   &[], &mut [], &[][..]                empty_slice
//!   r.assume_init_ref() / _mut()         r          (a reference to a slot is the slot's index)
//!   r.assume_init_read(), ptr::read(r)   read_slot r
//!   r.write(item)                        write_slot r item
//!   mem::replace(r, item)                gen_mem_replace r item  (read_slot, then write_slot)
//!   ptr::copy(p.add(a), p.add(b), n)     raw_copy a b n          (p = self.items.as_mut_ptr())
//!   ptr::swap_nonoverlapping(r, q, 1)    gen_swap_nonoverlapping r q
//!   self.items.rotate_left(k)            gen_rotate_left k
//!   slice_assume_init_ref/_mut(x)        x
//!   Some(v) / None                       Some v / None
//!   Ok(()) / Err(item)                   None / Some item        (Result<(), T> is `option elem`)
//!   e?  (on an Option)                   match e with None => ret None | Some t => ... end
//!   if c { ..; return v; } rest          if c then ret v else rest
//!   self.f(args) / f(args)               gen_f args              (f translated first)
//!
//! and, beyond the inherent methods of CircularBuffer:
//!
//!   a struct of the crate (Iter, IterMut, Drain, CircularSlicePtr)
//!                                        the record of the model (mkI, mkD, mkC); a field read is the
//!                                        projection; an assignment to a field builds a new record
//!   `&mut self` on such a struct, `&mut &[T]` parameter
//!                                        state passing: the function hands back the new value
//!                                        together with its result (only when it can change it)
//!   `let mut x`, `x = e`, `x -= e`       the name is bound again
//!   R: RangeBounds<usize>                two values of type `bound`; `..b`, `a..` at a call site are
//!                                        (BUnb, BExcl b), (BIncl a, BUnb)
//!   match on Bound / a pair of Bounds    match ... with BIncl x | BExcl x | BUnb
//!   o.expect(".."), unimplemented!()     match o with Some v => ret v | None => panic PExpect end,
//!                                        panic PUnimplemented
//!   if let Some(x) = e {a} else {b}      match e with None => b | Some x => a end
//!   o.map(|x| body)                      match o with None => ret None | Some x => v <- body;; ret (Some v) end
//!   Range<usize>::next / next_back / len / is_empty on a field
//!                                        gen_range_next / gen_range_next_back / gen_range_len / b <=? a
//!   slice.split_first() / split_last()   gen_split_first / gen_split_last
//!   mem::take(slice)                     the slice; the place holds empty_slice afterwards
//!   while c { body }                     a Fixpoint on fuel (panic PFuel when it runs out), the fuel
//!                                        expression is the one the hand model uses
//!   a local of a nested struct type with `impl Drop`
//!                                        finally rest (its destructor) when it lives to the end of
//!                                        the block; on_unwind around the user code that runs while
//!                                        it is alive when it is moved (drop(x), mem::forget(x))
//!   ptr::drop_in_place(slice)            drop_slice
//!   a `T` received by value              on_unwind (..) (drop_elem v) around user code while it is
//!                                        owned, drop_elem v where it goes out of scope
//!
//! Anything else is refused with a message naming the construct.

use crate::ir::*;
use proc_macro2::Span;
use std::collections::{BTreeSet, HashMap, HashSet};
use syn::spanned::Spanned;
use syn::Expr;

#[derive(Clone, Debug)]
pub struct Param {
    pub name: String,
    pub ty: Ty,
    /// `&mut &[T]` / `&mut &mut [T]`: assigned through `*name`; handed back when it can change
    pub by_mut_ref: bool,
}

/// what a caller has to know about a function before its body is translated
#[derive(Clone, Debug)]
pub struct FnInfo {
    pub key: String,
    pub owner: Option<String>,
    pub name: String,
    /// `Ty::Buf` (the machine state) or a record
    pub self_ty: Option<Ty>,
    /// `&mut self`
    pub self_mut: bool,
    pub params: Vec<Param>,
    pub ret: Ty,
    /// `N` (a const generic of the function or of its impl) is the capacity
    pub has_n: bool,
    pub file: String,
    /// the operations of the element type the bounds of the impl give the function, as leading
    /// parameters (name, Coq type): `T: PartialEq<U>` -> eqf, `T: PartialOrd<U>` / `T: Ord` -> cmpf
    pub fparams: Vec<(String, String)>,
    /// `T: Copy`: an element has no destructor
    pub copy_elems: bool,
    /// the function returns a buffer built by a constructor it calls: the memory that receives it is
    /// the parameter `mem'`
    pub mem_param: bool,
}

/// what is known once the body is translated
#[derive(Clone, Debug, Default)]
pub struct DoneInfo {
    /// does the function hand back a new `self`
    pub self_out: bool,
    /// indexes (in `params`) of the `&mut` parameters it hands back
    pub outs: Vec<usize>,
    /// can neither fail nor write
    pub harmless: bool,
    /// may run user code (Drop, Clone, a closure)
    pub user: bool,
    /// not translated: callers refer to this hand-written model instead (reported, never silent)
    pub external: Option<String>,
}

/// a struct declared inside a function body, with its destructor
#[derive(Clone)]
pub struct Nested {
    pub fields: Vec<(String, Ty)>,
    pub drop_body: Option<syn::Block>,
}

pub type Env = HashMap<String, Val>;

pub struct Tr<'a> {
    pub fns: &'a HashMap<String, FnInfo>,
    /// (owner type, function name) -> key
    pub index: &'a HashMap<(Option<String>, String), String>,
    pub done: &'a HashMap<String, DoneInfo>,
    pub me: FnInfo,
    /// every identifier that occurs in the function: fresh names avoid them
    pub used: HashSet<String>,
    pub counter: usize,
    /// may `return` / `?` leave the function from here (see `block`)
    pub can_return: bool,
    pub calls: BTreeSet<String>,
    /// the untranslated callees whose hand-written model the text refers to
    pub ext_calls: BTreeSet<String>,
    /// set when the translation stopped at a call of a function that has to be translated first
    pub need: Option<String>,
    /// is `self` / which `&mut` parameters are handed back (candidates; see main.rs)
    pub self_out: bool,
    pub outs: Vec<usize>,
    /// did any exit of the function hand back a value other than the one received
    pub self_changed: bool,
    pub outs_changed: HashSet<usize>,
    /// the locals with a destructor that are alive, oldest first
    pub live: Vec<String>,
    pub nested: HashMap<String, Nested>,
    /// the loops of the function, as Fixpoints (text), in order
    pub aux: Vec<String>,
    pub loops: usize,
    /// how many of the fuel expressions of the unit are used up (by loops and by adaptors)
    pub fuel_ix: usize,
    /// the memory `mem'` has received its buffer
    pub mem_used: bool,
    pub fuel: &'a [&'static str],
    /// only state reads so far / user code called
    pub harmless: bool,
    pub user: bool,
    pub in_loop: bool,
    /// nesting of the block at hand (the function body is 1)
    pub depth: usize,
}

pub fn no_attrs(attrs: &[syn::Attribute], sp: Span) -> Res<()> {
    if attrs.is_empty() { Ok(()) } else { unsupported("attribute on an expression or statement", sp) }
}

/// the attributes of a statement-level expression select the build: `#[cfg(feature = "unstable")]`
/// is not the build the model describes, `#[cfg(not(feature = "unstable"))]` is.
/// Some(true): keep; Some(false): leave out; None: other attributes
pub fn cfg_keep(attrs: &[syn::Attribute]) -> Option<bool> {
    let mut keep = true;
    for a in attrs {
        let t = norm_tokens(a);
        if t == "# [cfg (feature = \"unstable\")]" {
            keep = false;
        } else if t == "# [cfg (not (feature = \"unstable\"))]" {
        } else if t.starts_with("# [allow (") || t.starts_with("# [doc") || t == "# [inline]" {
        } else {
            return None;
        }
    }
    Some(keep)
}

pub fn norm_tokens(ts: impl quote::ToTokens) -> String {
    ts.to_token_stream().to_string().split_whitespace().collect::<Vec<_>>().join(" ")
}

pub fn path_segments(p: &syn::ExprPath) -> Res<Vec<String>> {
    if p.qself.is_some() || p.path.leading_colon.is_some() {
        return unsupported("qualified path", p.span());
    }
    let mut v = vec![];
    for s in &p.path.segments {
        if !s.arguments.is_none() {
            return unsupported("path with generic arguments", p.span());
        }
        v.push(s.ident.to_string());
    }
    Ok(v)
}

fn last_seg(p: &syn::Path) -> Option<&syn::PathSegment> {
    p.segments.last()
}

fn is_plain(p: &syn::TypePath, name: &str) -> bool {
    p.qself.is_none() && p.path.is_ident(name)
}

fn seg_args(s: &syn::PathSegment) -> Res<Vec<&syn::Type>> {
    match &s.arguments {
        syn::PathArguments::AngleBracketed(a) => {
            let mut v = vec![];
            for g in &a.args {
                match g {
                    syn::GenericArgument::Type(t) => v.push(t),
                    syn::GenericArgument::Lifetime(_) => {}
                    // `N` as a const argument parses as a type; anything else is refused
                    other => return unsupported("generic argument that is not a type", other.span()),
                }
            }
            Ok(v)
        }
        syn::PathArguments::None => Ok(vec![]),
        _ => unsupported("parenthesised type arguments", s.span()),
    }
}

/// `MaybeUninit<T>` or `T`
fn is_slot_type(t: &syn::Type) -> bool {
    match t {
        syn::Type::Paren(p) => is_slot_type(&p.elem),
        syn::Type::Path(p) if is_plain(p, "T") => true,
        syn::Type::Path(p) if p.qself.is_none() => match last_seg(&p.path) {
            Some(s) if s.ident == "MaybeUninit" => match &s.arguments {
                syn::PathArguments::AngleBracketed(a) if a.args.len() == 1 => {
                    matches!(&a.args[0], syn::GenericArgument::Type(syn::Type::Path(q)) if is_plain(q, "T"))
                }
                _ => false,
            },
            _ => false,
        },
        _ => false,
    }
}

/// what the type names of a signature mean where the function is declared
#[derive(Clone, Default)]
pub struct TyCtx {
    /// the type of the impl (`Self`)
    pub owner: Option<String>,
    /// the type parameters bounded by `RangeBounds<usize>`
    pub bounds_params: Vec<String>,
    /// the type parameters bounded by `core::ops::OneSidedRange<usize>`
    pub osr_params: Vec<String>,
    /// the type parameters bounded by `Hasher`
    pub hasher_params: Vec<String>,
    /// the type parameters bounded by `IntoIterator<Item = ..>`, with the type of the items
    pub driver_params: Vec<(String, Ty)>,
    /// `type Item = ..` / `type Output = ..` of the impl
    pub assoc: HashMap<String, syn::Type>,
    /// `&[T]` parameters of this name are data outside the array
    pub list_params: Vec<String>,
    /// the element type is `u8` (the io impls): `&[u8]` is data outside the array
    pub bytes: bool,
}

fn is_buffer_path(p: &syn::TypePath) -> bool {
    p.qself.is_none() && last_seg(&p.path).map(|s| s.ident == "CircularBuffer").unwrap_or(false)
}

pub fn type_of(t: &syn::Type, cx: &TyCtx) -> Res<Ty> {
    match t {
        syn::Type::Paren(p) => type_of(&p.elem, cx),
        syn::Type::Path(p) if is_plain(p, "usize") => Ok(Ty::Usize),
        syn::Type::Path(p) if is_plain(p, "bool") => Ok(Ty::Bool),
        syn::Type::Path(p) if is_plain(p, "T") => Ok(Ty::Elem),
        syn::Type::Path(p) if p.qself.is_none() && p.path.is_ident("Self") => match &cx.owner {
            Some(o) if rec_coq(o).is_some() => Ok(Ty::Rec(o.clone())),
            Some(o) if o == "CircularBuffer" || o == "IntoIter" => unsupported(
                "a buffer by value (`Self`): in the model the buffer is the state of the computation, not a value a computation builds or returns",
                t.span(),
            ),
            _ => unsupported("`Self` outside an impl of a struct the model has a record for", t.span()),
        },
        syn::Type::Path(p)
            if p.qself.is_none()
                && p.path.segments.len() == 2
                && p.path.segments[0].ident == "Self"
                && p.path.segments[0].arguments.is_none() =>
        {
            let n = p.path.segments[1].ident.to_string();
            match cx.assoc.get(&n) {
                Some(x) => type_of(x, cx),
                None => unsupported(&format!("associated type `Self::{}`", n), t.span()),
            }
        }
        syn::Type::Path(p) if p.qself.is_none() && p.path.get_ident().map(|i| cx.bounds_params.contains(&i.to_string())).unwrap_or(false) => {
            Ok(Ty::Bounds)
        }
        syn::Type::Path(p) if p.qself.is_none() && p.path.get_ident().map(|i| cx.osr_params.contains(&i.to_string())).unwrap_or(false) => {
            Ok(Ty::Osr)
        }
        syn::Type::Path(p) if p.qself.is_none() && p.path.get_ident().map(|i| cx.driver_params.iter().any(|(n, _)| i == n)).unwrap_or(false) => {
            let i = p.path.get_ident().unwrap().to_string();
            let t = cx.driver_params.iter().find(|(n, _)| *n == i).unwrap().1.clone();
            Ok(Ty::IterDriver(Box::new(t)))
        }
        syn::Type::Path(p) if p.qself.is_none() => {
            let s = match last_seg(&p.path) {
                Some(s) => s,
                None => return unsupported("empty type path", t.span()),
            };
            let name = s.ident.to_string();
            if rec_coq(&name).is_some() {
                return Ok(Ty::Rec(name));
            }
            if norm_tokens(t) == "fmt :: Result" {
                // the model has no formatting errors: see the std table
                return Ok(Ty::Unit);
            }
            if norm_tokens(t) == "Ordering" {
                return Ok(Ty::Ordering);
            }
            let args = seg_args(s)?;
            match (name.as_str(), args.as_slice()) {
                ("Option", [x]) => Ok(Ty::Opt(Box::new(type_of(x, cx)?))),
                ("Result", [a]) if cx.bytes => Ok(Ty::IoRes(Box::new(type_of(a, cx)?))),
                ("Result", [a, b]) => {
                    if cx.bytes && norm_tokens(b) == "Self :: Error" {
                        return Ok(Ty::IoRes(Box::new(type_of(a, cx)?)));
                    }
                    match (type_of(a, cx)?, type_of(b, cx)?) {
                        (Ty::Unit, Ty::Elem) => Ok(Ty::ResUnitElem),
                        _ => unsupported("Result other than Result<(), T>", t.span()),
                    }
                }
                ("Range", [a]) if type_of(a, cx)? == Ty::Usize => Ok(Ty::Range),
                ("NonNull", [syn::Type::Path(q)]) if is_buffer_path(q) => Ok(Ty::Buf),
                ("Box", [_]) => unsupported(
                    "`Box<Self>`: a buffer in a heap allocation of its own (Box::new_uninit, fields written through addr_of_mut! of a raw pointer into the allocation, assume_init): the model has one array, the one of the state, and no other memory that can be written",
                    t.span(),
                ),
                ("Vec", [_]) => unsupported(
                    "`Vec<T>`: a growing vector of elements by value (Vec::with_capacity, Vec::extend with a Cloned<Iter>, the partially built Vec destroying its clones when a clone unwinds): elements outside the array are only rendered as immutable lists",
                    t.span(),
                ),
                ("CircularBuffer", _) => unsupported(
                    "a buffer by value: in the model the buffer is the state of the computation, not a value a computation receives or returns",
                    t.span(),
                ),
                _ => unsupported(&format!("type `{}`", norm_tokens(t)), t.span()),
            }
        }
        syn::Type::Reference(r) if is_u_list(t) => {
            let _ = r;
            Ok(Ty::List)
        }
        syn::Type::Reference(r) if r.mutability.is_some() && norm_tokens(&r.elem) == "fmt :: Formatter < '_ >" => Ok(Ty::Formatter),
        syn::Type::Reference(r)
            if r.mutability.is_some()
                && matches!(&*r.elem, syn::Type::Path(p) if p.qself.is_none() && p.path.get_ident().map(|i| cx.hasher_params.contains(&i.to_string())).unwrap_or(false)) =>
        {
            Ok(Ty::Hasher)
        }
        syn::Type::Reference(r)
            if matches!(&*r.elem, syn::Type::Path(p) if is_plain(p, "Self")) && cx.owner.as_deref() == Some("CircularBuffer") =>
        {
            Ok(Ty::Buf)
        }
        syn::Type::Reference(r) => match &*r.elem {
            e if is_slot_type(e) => Ok(Ty::Ref),
            syn::Type::Path(p) if is_plain(p, "usize") => Ok(Ty::Usize),
            syn::Type::Path(p) if is_buffer_path(p) => Ok(Ty::Buf),
            syn::Type::Slice(s) if is_slot_type(&s.elem) => Ok(Ty::Slice),
            syn::Type::Slice(s) if cx.bytes && matches!(&*s.elem, syn::Type::Path(p) if is_plain(p, "u8")) => Ok(Ty::List),
            syn::Type::Path(p) if p.qself.is_none() && p.path.segments.len() == 2 && p.path.segments[0].ident == "Self" => {
                // `&Self::Output`
                match type_of(&r.elem, cx)? {
                    Ty::Elem => Ok(Ty::Ref),
                    other => unsupported(&format!("reference to {}", other.show()), t.span()),
                }
            }
            _ => unsupported(&format!("reference type `{}`", norm_tokens(t)), t.span()),
        },
        syn::Type::Ptr(p) if is_slot_type(&p.elem) => Ok(Ty::Ptr),
        syn::Type::Array(a) if is_slot_type(&a.elem) => unsupported(
            &format!(
                "`{}`: an array of elements by value, taken over piecewise (mem::ManuallyDrop, ptr::copy_nonoverlapping out of it into the items of a new buffer, ptr::drop_in_place of the part left behind): elements outside the buffer's array are only rendered as immutable lists",
                norm_tokens(t)
            ),
            t.span(),
        ),
        syn::Type::Tuple(tt) => {
            let v = tt.elems.iter().map(|x| type_of(x, cx)).collect::<Res<Vec<_>>>()?;
            Ok(if v.is_empty() { Ty::Unit } else { Ty::Tuple(v) })
        }
        _ => unsupported(&format!("type `{}`", norm_tokens(t)), t.span()),
    }
}

/// `&[U]`, `&[U; M]`, `&&'a [U]`, `&&'a mut [U]`, `&&'a [U; M]`, `&&'a mut [U; M]`: the elements another
/// value is compared with, data outside the array
pub fn is_u_list(t: &syn::Type) -> bool {
    fn inner(t: &syn::Type, depth: usize) -> bool {
        match t {
            syn::Type::Reference(r) if depth < 2 => inner(&r.elem, depth + 1),
            syn::Type::Slice(s) if depth >= 1 => matches!(&*s.elem, syn::Type::Path(p) if is_plain(p, "U")),
            syn::Type::Array(a) if depth >= 1 => {
                matches!(&*a.elem, syn::Type::Path(p) if is_plain(p, "U")) && norm_tokens(&a.len) == "M"
            }
            _ => false,
        }
    }
    inner(t, 0)
}

/// `&mut &'a [T]` / `&mut &'a mut [T]`
pub fn mut_ref_to_slice(t: &syn::Type) -> bool {
    match t {
        syn::Type::Reference(r) if r.mutability.is_some() => match &*r.elem {
            syn::Type::Reference(q) => matches!(&*q.elem, syn::Type::Slice(s) if is_slot_type(&s.elem)),
            _ => false,
        },
        _ => false,
    }
}

pub fn is_empty_array(e: &Expr) -> bool {
    match e {
        Expr::Paren(p) => is_empty_array(&p.expr),
        Expr::Array(a) => a.elems.is_empty() && a.attrs.is_empty(),
        _ => false,
    }
}

pub fn describe(e: &Expr) -> String {
    let dbg = format!("{:?}", e);
    let kind = dbg.split(|c: char| !c.is_alphanumeric() && c != ':').next().unwrap_or("expression");
    format!("expression of kind {}", kind)
}

// ---------------------------------------------------------------- records

pub enum FieldKind {
    Plain(&'static str, Ty),
    Range(&'static str, &'static str),
    /// the buffer the struct points to: the machine state
    Buf,
    /// not represented; the initialiser must be this path
    Ignore(&'static str),
    /// not represented because it always has this value (checked where the struct is built)
    FixedPtrBase,
}

pub struct Schema {
    pub ctor: &'static str,
    pub fields: Vec<(&'static str, &'static str, FieldKind)>, // (name, type text, kind)
}

pub fn schema(name: &str) -> Option<Schema> {
    match name {
        "Iter" => Some(Schema {
            ctor: "mkI",
            fields: vec![
                ("right", "& 'a [T]", FieldKind::Plain("it_right", Ty::Slice)),
                ("left", "& 'a [T]", FieldKind::Plain("it_left", Ty::Slice)),
            ],
        }),
        "IterMut" => Some(Schema {
            ctor: "mkI",
            fields: vec![
                ("right", "& 'a mut [T]", FieldKind::Plain("it_right", Ty::Slice)),
                ("left", "& 'a mut [T]", FieldKind::Plain("it_left", Ty::Slice)),
            ],
        }),
        "Drain" => Some(Schema {
            ctor: "mkD",
            fields: vec![
                ("buf", "NonNull < CircularBuffer < N , T > >", FieldKind::Buf),
                ("buf_size", "usize", FieldKind::Plain("d_buf_size", Ty::Usize)),
                ("range", "Range < usize >", FieldKind::Range("d_rs", "d_re")),
                ("iter", "Range < usize >", FieldKind::Range("d_is", "d_ie")),
                ("phantom", "PhantomData < & 'a T >", FieldKind::Ignore("PhantomData")),
            ],
        }),
        "CircularSlicePtr" => Some(Schema {
            ctor: "mkC",
            fields: vec![
                ("slice_start", "* mut T", FieldKind::FixedPtrBase),
                ("slice_len", "usize", FieldKind::Plain("c_len", Ty::Usize)),
                ("offset", "usize", FieldKind::Plain("c_off", Ty::Usize)),
                ("phantom", "PhantomData < & 'a T >", FieldKind::Ignore("PhantomData")),
            ],
        }),
        _ => None,
    }
}

impl<'a> Tr<'a> {
    pub fn fresh(&mut self) -> String {
        loop {
            self.counter += 1;
            let n = format!("t{}", self.counter);
            if !self.used.contains(&n) {
                self.used.insert(n.clone());
                return n;
            }
        }
    }

    /// the Coq name of a Rust variable: the name with a prime. No keyword,
    /// constructor (`left`, `end`, ...) or name of the model ends in a prime, and
    /// the temporaries `t<n>` do not either, so nothing can be captured.
    pub fn coq_ident(&mut self, id: &syn::Ident) -> Res<String> {
        let s = id.to_string();
        let s = s.strip_prefix("r#").unwrap_or(&s).to_string();
        if !s.chars().all(|c| c.is_ascii_alphanumeric() || c == '_') || s.is_empty() || s == "_" || s == "cg_fuel" {
            return unsupported(&format!("identifier `{}`", s), id.span());
        }
        Ok(format!("{}'", s))
    }

    /// an operation that only reads the state
    pub fn op_harmless(&self, f: &str, nargs: usize) -> bool {
        if nargs == 0 && ["get_size", "get_start", "get_cap", "items_slice", "get_items"].contains(&f) {
            return true;
        }
        match f.strip_prefix("gen_") {
            Some(k) => self.done.get(k).map(|d| d.harmless).unwrap_or(false),
            None => false,
        }
    }

    pub fn op_user(&self, f: &str) -> bool {
        if ["drop_elem", "drop_slice", "drop_opt", "drop_list", "clone_elem", "call_closure", "emit", "user_call", "iter_for_each",
            "slice_eq", "iter_cmp_loop"].contains(&f) {
            return true;
        }
        if f.ends_with('\'') || f == "gen_user_for_each" || f == "gen_refs_for_each" || f == "cloned_for_each" {
            // a driver applied to a closure
            return true;
        }
        match f.strip_prefix("gen_") {
            Some(k) => match self.done.get(k) {
                Some(d) => d.user,
                None => k.contains("_loop"), // a loop of this very function: see stmt.rs
            },
            None => false,
        }
    }

    pub fn comp_user(&self, c: &Comp) -> bool {
        match c {
            Comp::Ret(_) => false,
            Comp::Op(f, _, _) => self.op_user(f),
            Comp::If(_, a, b, _) => self.comp_user(a) || self.comp_user(b),
            Comp::Bind(_, m, k) => self.comp_user(m) || self.comp_user(k),
            Comp::Let(_, _, k) => self.comp_user(k),
            Comp::MatchOpt(_, _, n, s) => self.comp_user(n) || self.comp_user(s),
            Comp::Match(_, arms, _) => arms.iter().any(|(_, c)| self.comp_user(c)),
            Comp::Finally(a, b) | Comp::OnUnwind(a, b) => self.comp_user(a) || self.comp_user(b),
            Comp::Fuel(c) => self.comp_user(c),
        }
    }

    /// a record value with one field replaced
    pub fn rec_update(&mut self, rec: &Val, field: &str, new: &Val, sp: Span) -> Res<Val> {
        let name = match &rec.ty {
            Ty::Rec(n) => n.clone(),
            other => return unsupported(&format!("assignment to a field of a {}", other.show()), sp),
        };
        let sc = schema(&name).ok_or_else(|| format!("{}: no record for struct {}", at(sp), name))?;
        let mut args: Vec<String> = vec![];
        let mut hit = false;
        for (f, _, k) in &sc.fields {
            match k {
                FieldKind::Plain(p, t) => {
                    if *f == field {
                        if !new.ty.compat(t) {
                            return Err(format!("{}: field `{}` receives a {}, expected {}", at(sp), field, new.ty.show(), t.show()));
                        }
                        hit = true;
                        args.push(new.paren());
                    } else {
                        args.push(format!("({} {})", p, rec.paren()));
                    }
                }
                FieldKind::Range(a, b) => {
                    if *f == field {
                        match (&new.ty, &new.parts) {
                            (Ty::Range, Some(p)) => {
                                hit = true;
                                args.push(p[0].paren());
                                args.push(p[1].paren());
                            }
                            _ => return unsupported("assignment of something other than a range with known bounds to a range field", sp),
                        }
                    } else {
                        args.push(format!("({} {})", a, rec.paren()));
                        args.push(format!("({} {})", b, rec.paren()));
                    }
                }
                _ => {
                    if *f == field {
                        return unsupported(&format!("assignment to the field `{}`, which the model does not represent", field), sp);
                    }
                }
            }
        }
        if !hit {
            return unsupported(&format!("field `{}` of {}", field, name), sp);
        }
        Ok(Val::app(format!("{} {}", sc.ctor, args.join(" ")), Ty::Rec(name)))
    }

    /// `rec.field`
    pub fn rec_field(&self, rec: &Val, field: &str, sp: Span) -> Res<Val> {
        let name = match &rec.ty {
            Ty::Rec(n) => n.clone(),
            other => return unsupported(&format!("field `{}` of a {}", field, other.show()), sp),
        };
        let sc = schema(&name).ok_or_else(|| format!("{}: no record for struct {}", at(sp), name))?;
        for (f, _, k) in &sc.fields {
            if *f != field {
                continue;
            }
            return match k {
                FieldKind::Plain(p, t) => Ok(Val::app(format!("{} {}", p, rec.paren()), t.clone())),
                FieldKind::Range(a, b) => {
                    let va = Val::app(format!("{} {}", a, rec.paren()), Ty::Usize);
                    let vb = Val::app(format!("{} {}", b, rec.paren()), Ty::Usize);
                    Ok(Val {
                        tm: format!("({}, {})", va.tm, vb.tm),
                        ty: Ty::Range,
                        atomic: true,
                        parts: Some(vec![va, vb]),
                        ptr_base: false,
                    })
                }
                FieldKind::Buf => Ok(Val::atom("<buffer>", Ty::Buf)),
                FieldKind::FixedPtrBase => {
                    Ok(Val { tm: "0".into(), ty: Ty::Ptr, atomic: true, parts: None, ptr_base: true })
                }
                FieldKind::Ignore(_) => unsupported(&format!("use of the field `{}`", field), sp),
            };
        }
        unsupported(&format!("field `{}` of {}", field, name), sp)
    }
}

/// monad laws applied to the output, for readability only:
///   m ;; ret tt   =  m          (m : M unit)
///   x <- m ;; ret x  =  m
pub fn simplify(c: Comp) -> Comp {
    match c {
        Comp::Bind(n, m, k) => {
            let m = simplify(*m);
            let k = simplify(*k);
            match (&n, &k) {
                (None, Comp::Ret(v)) if v.tm == "tt" && m.ty() == Ty::Unit => m,
                (Some(x), Comp::Ret(v)) if v.atomic && &v.tm == x && !x.starts_with('\'') => m,
                _ => Comp::Bind(n, Box::new(m), Box::new(k)),
            }
        }
        Comp::If(c, a, b, t) => Comp::If(c, Box::new(simplify(*a)), Box::new(simplify(*b)), t),
        Comp::Let(x, v, k) => Comp::Let(x, v, Box::new(simplify(*k))),
        Comp::MatchOpt(v, x, n, s) => Comp::MatchOpt(v, x, Box::new(simplify(*n)), Box::new(simplify(*s))),
        Comp::Match(v, arms, t) => Comp::Match(v, arms.into_iter().map(|(p, c)| (p, simplify(c))).collect(), t),
        Comp::Finally(a, b) => Comp::Finally(Box::new(simplify(*a)), Box::new(simplify(*b))),
        Comp::OnUnwind(a, b) => Comp::OnUnwind(Box::new(simplify(*a)), Box::new(simplify(*b))),
        Comp::Fuel(c) => Comp::Fuel(Box::new(simplify(*c))),
        other => other,
    }
}
