//! rs2coq_types <repo> <out.v>
//!
//! Regenerates, from <repo>/src/*.rs, the closed Gallina terms that
//! coq/types/C15Theorems.v computes on: struct definitions, impl headers
//! (with their bounds, assoc types and method signatures) of the crate's
//! public types.  The AST is the one of coq/types/TypeModel.v.
//!
//! The translator refuses (non-zero exit, message on stderr) every piece of
//! syntax inside the translated items that it has no faithful image for,
//! instead of dropping it.

use std::collections::{BTreeMap, BTreeSet};
use std::fmt::Write as _;
use std::path::Path;

use quote::ToTokens;
use syn::spanned::Spanned;
use syn::visit::Visit;

type R<T> = Result<T, String>;

/// files translated completely (structs, impl headers, assoc types, method signatures)
const FULL: &[&str] = &["lib.rs", "iter.rs", "drain.rs"];

const PRIMS: &[&str] = &[
    "usize", "isize", "u8", "u16", "u32", "u64", "u128", "i8", "i16", "i32", "i64", "i128", "bool",
    "char", "str", "f32", "f64",
];

fn prelude(name: &str) -> Option<&'static str> {
    Some(match name {
        "Option" => "core::option::Option",
        "Result" => "core::result::Result",
        "Box" => "alloc::boxed::Box",
        "Vec" => "alloc::vec::Vec",
        "String" => "alloc::string::String",
        "Send" => "core::marker::Send",
        "Sync" => "core::marker::Sync",
        "Sized" => "core::marker::Sized",
        "Unpin" => "core::marker::Unpin",
        "Copy" => "core::marker::Copy",
        "Clone" => "core::clone::Clone",
        "Drop" => "core::ops::Drop",
        "Fn" => "core::ops::Fn",
        "FnMut" => "core::ops::FnMut",
        "FnOnce" => "core::ops::FnOnce",
        "Default" => "core::default::Default",
        "Iterator" => "core::iter::Iterator",
        "IntoIterator" => "core::iter::IntoIterator",
        "Extend" => "core::iter::Extend",
        "FromIterator" => "core::iter::FromIterator",
        "DoubleEndedIterator" => "core::iter::DoubleEndedIterator",
        "ExactSizeIterator" => "core::iter::ExactSizeIterator",
        "PartialEq" => "core::cmp::PartialEq",
        "Eq" => "core::cmp::Eq",
        "PartialOrd" => "core::cmp::PartialOrd",
        "Ord" => "core::cmp::Ord",
        "From" => "core::convert::From",
        "Into" => "core::convert::Into",
        "AsRef" => "core::convert::AsRef",
        "AsMut" => "core::convert::AsMut",
        "TryFrom" => "core::convert::TryFrom",
        "TryInto" => "core::convert::TryInto",
        "ToOwned" => "alloc::borrow::ToOwned",
        "ToString" => "alloc::string::ToString",
        _ => return None,
    })
}

/// derive macro name -> trait it implements
fn derive_trait(name: &str) -> Option<&'static str> {
    Some(match name {
        "Clone" => "core::clone::Clone",
        "Copy" => "core::marker::Copy",
        "Debug" => "core::fmt::Debug",
        "Default" => "core::default::Default",
        "PartialEq" => "core::cmp::PartialEq",
        "Eq" => "core::cmp::Eq",
        "PartialOrd" => "core::cmp::PartialOrd",
        "Ord" => "core::cmp::Ord",
        "Hash" => "core::hash::Hash",
        _ => return None,
    })
}

#[derive(Clone, Default)]
struct Scope {
    lifetimes: Vec<String>,
    types: Vec<String>,
    consts: Vec<String>,
}

struct FileCtx {
    rel: String,
    /// ident -> imported path; None = imported twice with different targets
    uses: BTreeMap<String, Option<Vec<String>>>,
    /// structs defined at the top level of this file
    local: BTreeSet<String>,
    /// unresolved names become "?::name" instead of an error (files outside FULL)
    lenient: bool,
}

fn at<T: Spanned>(cx: &FileCtx, t: &T) -> String {
    format!("src/{}:{}", cx.rel, t.span().start().line)
}

fn err<T: Spanned, X>(cx: &FileCtx, t: &T, msg: &str) -> R<X> {
    Err(format!("{}: {}", at(cx, t), msg))
}

fn toks<T: ToTokens>(t: &T) -> String {
    t.to_token_stream().to_string()
}

// ------------------------------------------------------------ Coq printing

fn qs(s: &str) -> String {
    format!("\"{}\"", s.replace('"', "\"\""))
}
fn list(items: &[String]) -> String {
    if items.is_empty() {
        "[]".to_string()
    } else {
        format!("[{}]", items.join("; "))
    }
}
fn opt(o: Option<String>) -> String {
    match o {
        Some(s) => format!("(Some {})", s),
        None => "None".to_string(),
    }
}
fn b(x: bool) -> &'static str {
    if x {
        "true"
    } else {
        "false"
    }
}

// ------------------------------------------------------------ name resolution

fn collect_use(tree: &syn::UseTree, prefix: &mut Vec<String>, out: &mut Vec<(String, Vec<String>)>, cx_rel: &str) -> R<()> {
    match tree {
        syn::UseTree::Path(p) => {
            prefix.push(p.ident.to_string());
            collect_use(&p.tree, prefix, out, cx_rel)?;
            prefix.pop();
        }
        syn::UseTree::Name(n) => {
            let id = n.ident.to_string();
            if id == "self" {
                let last = prefix.last().cloned().ok_or("use self without a path")?;
                out.push((last, prefix.clone()));
            } else {
                let mut p = prefix.clone();
                p.push(id.clone());
                out.push((id, p));
            }
        }
        syn::UseTree::Rename(r) => {
            let mut p = prefix.clone();
            p.push(r.ident.to_string());
            out.push((r.rename.to_string(), p));
        }
        syn::UseTree::Glob(g) => {
            return Err(format!(
                "src/{}:{}: glob import: the names it brings into scope cannot be resolved by this translator",
                cx_rel,
                g.span().start().line
            ));
        }
        syn::UseTree::Group(g) => {
            for t in &g.items {
                collect_use(t, prefix, out, cx_rel)?;
            }
        }
    }
    Ok(())
}

fn canon(cx: &FileCtx, segs: &[String], depth: u32) -> Option<String> {
    let first = segs[0].as_str();
    if first == "crate" || first == "self" || first == "super" {
        // struct names are checked to be unique in the crate: crate::<last segment>
        return Some(format!("crate::{}", segs.last().unwrap()));
    }
    if first == "core" || first == "std" || first == "alloc" {
        return Some(segs.join("::"));
    }
    if segs.len() == 1 && cx.local.contains(first) {
        return Some(format!("crate::{}", first));
    }
    if depth < 4 {
        if let Some(Some(p)) = cx.uses.get(first) {
            let mut full = p.clone();
            full.extend_from_slice(&segs[1..]);
            // an extern crate name (embedded_io ...) stays as written
            if full[0] == first && full.len() == segs.len() {
                return Some(full.join("::"));
            }
            return canon(cx, &full, depth + 1).or(Some(full.join("::")));
        }
    }
    if segs.len() == 1 {
        if let Some(p) = prelude(first) {
            return Some(p.to_string());
        }
    }
    None
}

struct PathInfo {
    name: String,
    args: syn::PathArguments,
}

fn resolve_path(cx: &FileCtx, path: &syn::Path) -> R<PathInfo> {
    let n = path.segments.len();
    for (i, s) in path.segments.iter().enumerate() {
        if i + 1 < n && !matches!(s.arguments, syn::PathArguments::None) {
            return err(cx, path, &format!("generic arguments on a non-final path segment: {}", toks(path)));
        }
    }
    let segs: Vec<String> = path.segments.iter().map(|s| s.ident.to_string()).collect();
    let name = match canon(cx, &segs, 0) {
        Some(x) => x,
        None => {
            if cx.lenient || path.leading_colon.is_some() {
                format!("?::{}", segs.join("::"))
            } else {
                return err(
                    cx,
                    path,
                    &format!("cannot resolve the name `{}` (not a parameter in scope, not imported by a `use`, not in the prelude table)", toks(path)),
                );
            }
        }
    };
    Ok(PathInfo { name, args: path.segments.last().unwrap().arguments.clone() })
}

// ------------------------------------------------------------ types

fn tr_lifetime(l: &syn::Lifetime) -> String {
    let n = l.ident.to_string();
    if n == "static" {
        "LStatic".into()
    } else if n == "_" {
        "LElided".into()
    } else {
        format!("(LNamed {})", qs(&n))
    }
}

fn tr_cexpr(cx: &FileCtx, sc: &Scope, e: &syn::Expr) -> R<String> {
    match e {
        syn::Expr::Path(p) if p.qself.is_none() && p.path.get_ident().is_some() => {
            let id = p.path.get_ident().unwrap().to_string();
            if sc.consts.contains(&id) {
                Ok(format!("(CParam {})", qs(&id)))
            } else {
                Ok(format!("(COther {})", qs(&id)))
            }
        }
        syn::Expr::Lit(syn::ExprLit { lit: syn::Lit::Int(i), .. }) => Ok(format!("(CLit {})", qs(i.base10_digits()))),
        syn::Expr::Block(_) | syn::Expr::Binary(_) | syn::Expr::Paren(_) | syn::Expr::Unary(_) | syn::Expr::Call(_) | syn::Expr::MethodCall(_) | syn::Expr::Path(_) | syn::Expr::Lit(_) => {
            Ok(format!("(COther {})", qs(&toks(e))))
        }
        _ => err(cx, e, &format!("const expression not understood: {}", toks(e))),
    }
}

struct GArgs {
    ls: Vec<String>,
    ts: Vec<String>,
    cs: Vec<String>,
    assoc: Vec<String>,
}

fn tr_angle(cx: &FileCtx, sc: &Scope, a: &syn::AngleBracketedGenericArguments, allow_assoc: bool) -> R<GArgs> {
    let mut g = GArgs { ls: vec![], ts: vec![], cs: vec![], assoc: vec![] };
    for arg in &a.args {
        match arg {
            syn::GenericArgument::Lifetime(l) => g.ls.push(tr_lifetime(l)),
            syn::GenericArgument::Type(t) => {
                // `Foo<N>`: syn cannot tell a const parameter from a type
                if let syn::Type::Path(tp) = t {
                    if tp.qself.is_none() {
                        if let Some(id) = tp.path.get_ident() {
                            if sc.consts.contains(&id.to_string()) {
                                g.cs.push(format!("(CParam {})", qs(&id.to_string())));
                                continue;
                            }
                        }
                    }
                }
                g.ts.push(tr_ty(cx, sc, t)?)
            }
            syn::GenericArgument::Const(e) => g.cs.push(tr_cexpr(cx, sc, e)?),
            syn::GenericArgument::AssocType(at) if allow_assoc => {
                if at.generics.is_some() {
                    return err(cx, at, "generic associated type binding");
                }
                g.assoc.push(format!("({}, {})", qs(&at.ident.to_string()), tr_ty(cx, sc, &at.ty)?));
            }
            other => return err(cx, other, &format!("generic argument not understood here: {}", toks(other))),
        }
    }
    Ok(g)
}

fn tr_ty(cx: &FileCtx, sc: &Scope, t: &syn::Type) -> R<String> {
    match t {
        syn::Type::Paren(p) => tr_ty(cx, sc, &p.elem),
        syn::Type::Group(p) => tr_ty(cx, sc, &p.elem),
        syn::Type::Reference(r) => {
            let l = r.lifetime.as_ref().map(tr_lifetime).unwrap_or_else(|| "LElided".into());
            let m = if r.mutability.is_some() { "Mut" } else { "Shr" };
            Ok(format!("(TRef {} {} {})", l, m, tr_ty(cx, sc, &r.elem)?))
        }
        syn::Type::Ptr(p) => {
            let m = if p.mutability.is_some() { "Mut" } else { "Shr" };
            Ok(format!("(TPtr {} {})", m, tr_ty(cx, sc, &p.elem)?))
        }
        syn::Type::Slice(s) => Ok(format!("(TSlice {})", tr_ty(cx, sc, &s.elem)?)),
        syn::Type::Array(a) => Ok(format!("(TArray {} {})", tr_ty(cx, sc, &a.elem)?, tr_cexpr(cx, sc, &a.len)?)),
        syn::Type::Tuple(tu) => {
            let v: R<Vec<String>> = tu.elems.iter().map(|e| tr_ty(cx, sc, e)).collect();
            Ok(format!("(TTuple {})", list(&v?)))
        }
        syn::Type::Never(_) => Ok("(TBase \"!\")".into()),
        syn::Type::BareFn(f) => {
            if f.lifetimes.is_some() {
                return err(cx, f, "higher-ranked fn pointer type (for<'a> fn ..)");
            }
            if f.variadic.is_some() {
                return err(cx, f, "variadic fn pointer type");
            }
            let a: R<Vec<String>> = f.inputs.iter().map(|x| tr_ty(cx, sc, &x.ty)).collect();
            let r = match &f.output {
                syn::ReturnType::Default => "(TTuple [])".to_string(),
                syn::ReturnType::Type(_, t) => tr_ty(cx, sc, t)?,
            };
            Ok(format!("(TFnPtr {} {})", list(&a?), r))
        }
        syn::Type::Path(tp) => {
            if tp.qself.is_some() {
                return err(cx, tp, &format!("qualified path type: {}", toks(tp)));
            }
            let p = &tp.path;
            let segs: Vec<&syn::PathSegment> = p.segments.iter().collect();
            let first = segs[0].ident.to_string();
            let no_args = |s: &syn::PathSegment| matches!(s.arguments, syn::PathArguments::None);
            if p.leading_colon.is_none() && (first == "Self" || sc.types.contains(&first)) {
                let base = if first == "Self" { "TSelf".to_string() } else { format!("(TParam {})", qs(&first)) };
                if !segs.iter().all(|s| no_args(s)) {
                    return err(cx, tp, &format!("generic arguments on Self / a type parameter: {}", toks(tp)));
                }
                return match segs.len() {
                    1 => Ok(base),
                    2 => Ok(format!("(TProj {} {})", base, qs(&segs[1].ident.to_string()))),
                    _ => err(cx, tp, &format!("nested projection: {}", toks(tp))),
                };
            }
            if segs.len() == 1 && p.leading_colon.is_none() && PRIMS.contains(&first.as_str()) && !cx.local.contains(&first) && !cx.uses.contains_key(&first) {
                if !no_args(segs[0]) {
                    return err(cx, tp, "generic arguments on a primitive type");
                }
                return Ok(format!("(TBase {})", qs(&first)));
            }
            if segs.len() == 1 && sc.consts.contains(&first) {
                return err(cx, tp, &format!("const parameter `{}` used where a type is expected", first));
            }
            let info = resolve_path(cx, p)?;
            let g = match &info.args {
                syn::PathArguments::None => GArgs { ls: vec![], ts: vec![], cs: vec![], assoc: vec![] },
                syn::PathArguments::AngleBracketed(a) => tr_angle(cx, sc, a, false)?,
                syn::PathArguments::Parenthesized(_) => return err(cx, tp, "parenthesized arguments in a type path"),
            };
            Ok(format!("(TApp {} {} {} {})", qs(&info.name), list(&g.ls), list(&g.ts), list(&g.cs)))
        }
        syn::Type::ImplTrait(_) => err(cx, t, &format!("`impl Trait` type (its captured lifetimes are not modelled): {}", toks(t))),
        syn::Type::TraitObject(_) => err(cx, t, &format!("trait object type (its lifetime bound defaults are not modelled): {}", toks(t))),
        other => err(cx, other, &format!("type syntax not understood: {}", toks(other))),
    }
}

// ------------------------------------------------------------ generics, bounds

fn tr_bound(cx: &FileCtx, sc: &Scope, bd: &syn::TypeParamBound) -> R<String> {
    match bd {
        syn::TypeParamBound::Lifetime(l) => Ok(format!("(BOutlives {})", tr_lifetime(l))),
        syn::TypeParamBound::Trait(tb) => {
            if tb.lifetimes.is_some() {
                return err(cx, tb, "higher-ranked trait bound (for<'a> ..)");
            }
            let maybe = match tb.modifier {
                syn::TraitBoundModifier::None => false,
                syn::TraitBoundModifier::Maybe(_) => true,
            };
            let info = resolve_path(cx, &tb.path)?;
            match &info.args {
                syn::PathArguments::Parenthesized(pa) => {
                    if maybe {
                        return err(cx, tb, "?Fn(..) bound");
                    }
                    let a: R<Vec<String>> = pa.inputs.iter().map(|x| tr_ty(cx, sc, x)).collect();
                    let r = match &pa.output {
                        syn::ReturnType::Default => None,
                        syn::ReturnType::Type(_, t) => Some(tr_ty(cx, sc, t)?),
                    };
                    Ok(format!("(BFn {} {} {})", qs(&info.name), list(&a?), opt(r)))
                }
                syn::PathArguments::None => Ok(format!("(BTrait {} {} [] [] [] [])", b(maybe), qs(&info.name))),
                syn::PathArguments::AngleBracketed(a) => {
                    let g = tr_angle(cx, sc, a, true)?;
                    Ok(format!("(BTrait {} {} {} {} {} {})", b(maybe), qs(&info.name), list(&g.ls), list(&g.ts), list(&g.cs), list(&g.assoc)))
                }
            }
        }
        other => err(cx, other, &format!("bound syntax not understood: {}", toks(other))),
    }
}

fn tr_bounds<'a, I: Iterator<Item = &'a syn::TypeParamBound>>(cx: &FileCtx, sc: &Scope, it: I) -> R<String> {
    let v: R<Vec<String>> = it.map(|x| tr_bound(cx, sc, x)).collect();
    Ok(list(&v?))
}

fn check_plain_attrs(cx: &FileCtx, attrs: &[syn::Attribute], what: &str) -> R<()> {
    for a in attrs {
        if !a.path().is_ident("doc") {
            return err(cx, a, &format!("attribute on {}: {}", what, toks(a)));
        }
    }
    Ok(())
}

/// extends `sc` with the parameters of `g` and returns (generics, where-clause) as Coq lists
fn tr_generics(cx: &FileCtx, sc: &mut Scope, g: &syn::Generics) -> R<(String, String)> {
    // names first: bounds may mention later parameters
    for p in &g.params {
        match p {
            syn::GenericParam::Lifetime(l) => sc.lifetimes.push(l.lifetime.ident.to_string()),
            syn::GenericParam::Type(t) => sc.types.push(t.ident.to_string()),
            syn::GenericParam::Const(c) => sc.consts.push(c.ident.to_string()),
        }
    }
    let mut ps = vec![];
    for p in &g.params {
        match p {
            syn::GenericParam::Lifetime(l) => {
                check_plain_attrs(cx, &l.attrs, "a lifetime parameter")?;
                let o: Vec<String> = l.bounds.iter().map(tr_lifetime).collect();
                ps.push(format!("GPLife {} {}", qs(&l.lifetime.ident.to_string()), list(&o)));
            }
            syn::GenericParam::Type(t) => {
                // #[may_dangle] and friends change drop-check: not modelled
                check_plain_attrs(cx, &t.attrs, "a type parameter")?;
                if t.default.is_some() {
                    return err(cx, t, "type parameter default");
                }
                ps.push(format!("GPTy {} {}", qs(&t.ident.to_string()), tr_bounds(cx, sc, t.bounds.iter())?));
            }
            syn::GenericParam::Const(c) => {
                check_plain_attrs(cx, &c.attrs, "a const parameter")?;
                if c.default.is_some() {
                    return err(cx, c, "const parameter default");
                }
                ps.push(format!("GPConst {} {}", qs(&c.ident.to_string()), tr_ty(cx, sc, &c.ty)?));
            }
        }
    }
    let mut ws = vec![];
    if let Some(w) = &g.where_clause {
        for pr in &w.predicates {
            match pr {
                syn::WherePredicate::Type(pt) => {
                    if pt.lifetimes.is_some() {
                        return err(cx, pt, "higher-ranked where predicate");
                    }
                    ws.push(format!("WTy {} {}", tr_ty(cx, sc, &pt.bounded_ty)?, tr_bounds(cx, sc, pt.bounds.iter())?));
                }
                syn::WherePredicate::Lifetime(pl) => {
                    let o: Vec<String> = pl.bounds.iter().map(tr_lifetime).collect();
                    ws.push(format!("WLife {} {}", tr_lifetime(&pl.lifetime), list(&o)));
                }
                other => return err(cx, other, "where predicate not understood"),
            }
        }
    }
    Ok((list(&ps), list(&ws)))
}

fn tr_vis(cx: &FileCtx, v: &syn::Visibility) -> R<String> {
    Ok(match v {
        syn::Visibility::Public(_) => "VPub".into(),
        syn::Visibility::Inherited => "VPriv".into(),
        syn::Visibility::Restricted(r) => {
            if r.in_token.is_none() && r.path.is_ident("crate") {
                "VCrate".into()
            } else if r.in_token.is_none() && r.path.is_ident("self") {
                "VPriv".into()
            } else {
                let _ = cx;
                format!("(VRestricted {})", qs(&toks(&r.path)))
            }
        }
    })
}

// ------------------------------------------------------------ attributes

struct Attrs {
    cfg: Option<String>,
    derives: Vec<String>,
    repr: Option<String>,
}

/// attributes that do not change what the item means for C15
const HARMLESS: &[&str] = &["doc", "inline", "must_use", "allow", "warn", "deny", "forbid", "expect", "deprecated", "cold", "track_caller", "non_exhaustive"];

fn tr_attrs(cx: &FileCtx, attrs: &[syn::Attribute], what: &str, allow_cfg: bool, is_struct: bool) -> R<Attrs> {
    let mut out = Attrs { cfg: None, derives: vec![], repr: None };
    let mut cfgs = vec![];
    for a in attrs {
        let p = a.path();
        let first = p.segments.first().map(|s| s.ident.to_string()).unwrap_or_default();
        if p.get_ident().map(|i| HARMLESS.contains(&i.to_string().as_str())).unwrap_or(false) || first == "rustfmt" || first == "clippy" {
            continue;
        }
        if p.is_ident("cfg") {
            if !allow_cfg {
                return err(cx, a, &format!("#[cfg] on {}: conditional definitions are not modelled", what));
            }
            let m = a.meta.require_list().map_err(|e| format!("{}: {}", at(cx, a), e))?;
            cfgs.push(m.tokens.to_string());
            continue;
        }
        if is_struct && p.is_ident("derive") {
            let paths = a
                .parse_args_with(syn::punctuated::Punctuated::<syn::Path, syn::Token![,]>::parse_terminated)
                .map_err(|e| format!("{}: {}", at(cx, a), e))?;
            for d in paths {
                let last = d.segments.last().unwrap().ident.to_string();
                match derive_trait(&last) {
                    Some(t) => out.derives.push(t.to_string()),
                    None => return err(cx, a, &format!("derive macro `{}` is not one whose expansion is known", toks(&d))),
                }
            }
            continue;
        }
        if is_struct && p.is_ident("repr") {
            let m = a.meta.require_list().map_err(|e| format!("{}: {}", at(cx, a), e))?;
            out.repr = Some(m.tokens.to_string());
            continue;
        }
        return err(cx, a, &format!("attribute on {} not understood: {}", what, toks(a)));
    }
    if !cfgs.is_empty() {
        out.cfg = Some(cfgs.join(" && "));
    }
    Ok(out)
}

// ------------------------------------------------------------ items

struct Out {
    defs: Vec<(String, String)>, // (coq ident, term)
    impls: Vec<(String, String)>,
    n_fns: usize,
}

fn tr_struct(cx: &FileCtx, s: &syn::ItemStruct) -> R<(String, String)> {
    let name = s.ident.to_string();
    let attrs = tr_attrs(cx, &s.attrs, &format!("struct {}", name), false, true)?;
    let mut sc = Scope::default();
    let (gens, wh) = tr_generics(cx, &mut sc, &s.generics)?;
    let mut fields = vec![];
    let mut push = |i: usize, f: &syn::Field| -> R<()> {
        for a in &f.attrs {
            if !a.path().is_ident("doc") {
                return err(cx, a, &format!("attribute on a field of {}: {}", name, toks(a)));
            }
        }
        let fname = f.ident.as_ref().map(|x| x.to_string()).unwrap_or_else(|| i.to_string());
        fields.push(format!(
            "{{| fd_name := {}; fd_vis := {}; fd_ty := {} |}}",
            qs(&fname),
            tr_vis(cx, &f.vis)?,
            tr_ty(cx, &sc, &f.ty)?
        ));
        Ok(())
    };
    match &s.fields {
        syn::Fields::Named(n) => {
            for (i, f) in n.named.iter().enumerate() {
                push(i, f)?;
            }
        }
        syn::Fields::Unnamed(u) => {
            for (i, f) in u.unnamed.iter().enumerate() {
                push(i, f)?;
            }
        }
        syn::Fields::Unit => {}
    }
    let mut t = String::new();
    write!(
        t,
        "{{| s_name := {};\n     s_vis := {};\n     s_generics := {};\n     s_where := {};\n     s_fields :=\n       [{}];\n     s_derives := {};\n     s_repr := {};\n     s_src := {} |}}",
        qs(&format!("crate::{}", name)),
        tr_vis(cx, &s.vis)?,
        gens,
        wh,
        fields.join(";\n        "),
        list(&attrs.derives.iter().map(|d| qs(d)).collect::<Vec<_>>()),
        opt(attrs.repr.map(|r| qs(&r))),
        qs(&at(cx, &s.ident))
    )
    .unwrap();
    Ok((format!("def_{}", name), t))
}

fn tr_sig(cx: &FileCtx, outer: &Scope, vis: &syn::Visibility, attrs: &[syn::Attribute], sig: &syn::Signature) -> R<String> {
    let name = sig.ident.to_string();
    let a = tr_attrs(cx, attrs, &format!("fn {}", name), true, false)?;
    if sig.abi.is_some() {
        return err(cx, sig, "extern fn");
    }
    if sig.variadic.is_some() {
        return err(cx, sig, "variadic fn");
    }
    let mut sc = outer.clone();
    let (gens, wh) = tr_generics(cx, &mut sc, &sig.generics)?;
    let mut recv = "RNone".to_string();
    let mut args = vec![];
    for (i, inp) in sig.inputs.iter().enumerate() {
        match inp {
            syn::FnArg::Receiver(r) => {
                check_plain_attrs(cx, &r.attrs, "a receiver")?;
                if r.colon_token.is_some() {
                    recv = format!("(RTyped {})", tr_ty(cx, &sc, &r.ty)?);
                } else if let Some((_, lt)) = &r.reference {
                    let l = lt.as_ref().map(tr_lifetime).unwrap_or_else(|| "LElided".into());
                    recv = format!("(RRef {} {})", l, if r.mutability.is_some() { "Mut" } else { "Shr" });
                } else {
                    recv = "RValue".into();
                }
            }
            syn::FnArg::Typed(pt) => {
                check_plain_attrs(cx, &pt.attrs, "an argument")?;
                let n = match &*pt.pat {
                    syn::Pat::Ident(pi) => pi.ident.to_string(),
                    syn::Pat::Wild(_) => "_".into(),
                    _ => format!("_{}", i),
                };
                args.push(format!("({}, {})", qs(&n), tr_ty(cx, &sc, &pt.ty)?));
            }
        }
    }
    let ret = match &sig.output {
        syn::ReturnType::Default => None,
        syn::ReturnType::Type(_, t) => Some(tr_ty(cx, &sc, t)?),
    };
    Ok(format!(
        "{{| f_name := {}; f_vis := {}; f_const := {}; f_unsafe := {}; f_async := {};\n          f_generics := {}; f_where := {};\n          f_recv := {}; f_args := {};\n          f_ret := {}; f_cfg := {} |}}",
        qs(&name),
        tr_vis(cx, vis)?,
        b(sig.constness.is_some()),
        b(sig.unsafety.is_some()),
        b(sig.asyncness.is_some()),
        gens,
        wh,
        recv,
        list(&args),
        opt(ret),
        opt(a.cfg.map(|c| qs(&c)))
    ))
}

fn tr_impl(cx: &FileCtx, im: &syn::ItemImpl, with_items: bool, out: &mut Out) -> R<String> {
    let a = tr_attrs(cx, &im.attrs, "an impl block", true, false)?;
    if im.defaultness.is_some() {
        return err(cx, im, "default impl");
    }
    let mut sc = Scope::default();
    let (gens, wh) = tr_generics(cx, &mut sc, &im.generics)?;
    let (neg, tr) = match &im.trait_ {
        None => (false, None),
        Some((bang, path, _)) => {
            let info = resolve_path(cx, path)?;
            let g = match &info.args {
                syn::PathArguments::None => GArgs { ls: vec![], ts: vec![], cs: vec![], assoc: vec![] },
                syn::PathArguments::AngleBracketed(ab) => tr_angle(cx, &sc, ab, false)?,
                syn::PathArguments::Parenthesized(_) => return err(cx, path, "impl of an Fn-sugar trait"),
            };
            (bang.is_some(), Some(format!("({}, ({}, {}, {}))", qs(&info.name), list(&g.ls), list(&g.ts), list(&g.cs))))
        }
    };
    let self_ty = tr_ty(cx, &sc, &im.self_ty)?;
    let mut assoc = vec![];
    let mut consts = vec![];
    let mut fns = vec![];
    if with_items {
        for it in &im.items {
            match it {
                syn::ImplItem::Fn(f) => {
                    if f.defaultness.is_some() {
                        return err(cx, f, "default fn");
                    }
                    fns.push(tr_sig(cx, &sc, &f.vis, &f.attrs, &f.sig)?);
                    out.n_fns += 1;
                }
                syn::ImplItem::Type(t) => {
                    if !t.generics.params.is_empty() || t.generics.where_clause.is_some() {
                        return err(cx, t, "generic associated type");
                    }
                    tr_attrs(cx, &t.attrs, "an associated type", false, false)?;
                    assoc.push(format!("({}, {})", qs(&t.ident.to_string()), tr_ty(cx, &sc, &t.ty)?));
                }
                syn::ImplItem::Const(c) => {
                    tr_attrs(cx, &c.attrs, "an associated const", true, false)?;
                    consts.push(qs(&c.ident.to_string()));
                }
                other => return err(cx, other, &format!("impl item not understood: {}", toks(other).chars().take(80).collect::<String>())),
            }
        }
    }
    Ok(format!(
        "{{| i_unsafe := {}; i_negative := {};\n     i_generics := {};\n     i_trait := {};\n     i_self := {};\n     i_where := {};\n     i_assoc := {};\n     i_consts := {};\n     i_fns :=\n       [{}];\n     i_cfg := {};\n     i_src := {} |}}",
        b(im.unsafety.is_some()),
        b(neg),
        gens,
        opt(tr),
        self_ty,
        wh,
        list(&assoc),
        list(&consts),
        fns.join(";\n        "),
        opt(a.cfg.map(|c| qs(&c))),
        qs(&at(cx, &im.impl_token))
    ))
}

/// impl blocks nested in function bodies: legal Rust, and they can implement
/// a trait (Send, Clone, ...) for a top-level type
struct Nested<'a> {
    found: Vec<&'a syn::ItemImpl>,
    macros: Vec<String>,
}
impl<'a> Visit<'a> for Nested<'a> {
    fn visit_item_impl(&mut self, i: &'a syn::ItemImpl) {
        self.found.push(i);
        syn::visit::visit_item_impl(self, i);
    }
    fn visit_item_macro(&mut self, m: &'a syn::ItemMacro) {
        // macro_rules! definitions / item-position invocations inside bodies
        if m.ident.is_some() || m.mac.path.is_ident("macro_rules") {
            self.macros.push(toks(&m.mac.path));
        }
    }
}

fn self_head(t: &syn::Type) -> Option<String> {
    match t {
        syn::Type::Path(p) => p.path.segments.last().map(|s| s.ident.to_string()),
        syn::Type::Reference(r) => self_head(&r.elem),
        syn::Type::Paren(p) => self_head(&p.elem),
        _ => None,
    }
}

fn has_cfg_test(attrs: &[syn::Attribute]) -> bool {
    attrs.iter().any(|a| a.path().is_ident("cfg") && a.meta.require_list().map(|m| m.tokens.to_string() == "test").unwrap_or(false))
}

fn build_ctx(rel: &str, file: &syn::File, lenient: bool) -> R<FileCtx> {
    let mut uses: BTreeMap<String, Option<Vec<String>>> = BTreeMap::new();
    let mut local = BTreeSet::new();
    for it in &file.items {
        match it {
            syn::Item::Use(u) => {
                let mut v = vec![];
                collect_use(&u.tree, &mut vec![], &mut v, rel)?;
                for (k, p) in v {
                    match uses.get(&k) {
                        Some(Some(q)) if *q != p => {
                            if lenient {
                                uses.insert(k, None);
                            } else {
                                return Err(format!("src/{}:{}: `{}` is imported from two different paths (cfg-dependent imports are not modelled)", rel, u.span().start().line, k));
                            }
                        }
                        Some(_) => {}
                        None => {
                            uses.insert(k, Some(p));
                        }
                    }
                }
            }
            syn::Item::Struct(s) => {
                local.insert(s.ident.to_string());
            }
            _ => {}
        }
    }
    Ok(FileCtx { rel: rel.to_string(), uses, local, lenient })
}

fn run(repo: &str, outp: &str) -> R<String> {
    let src = Path::new(repo).join("src");
    let read = |rel: &str| -> R<syn::File> {
        let p = src.join(rel);
        let text = std::fs::read_to_string(&p).map_err(|e| format!("{}: {}", p.display(), e))?;
        syn::parse_file(&text).map_err(|e| format!("src/{}:{}: parse error: {}", rel, e.span().start().line, e))
    };

    // the module list comes from lib.rs
    let lib = read("lib.rs")?;
    let mut rels: Vec<(String, bool)> = vec![("lib.rs".into(), true)];
    for it in &lib.items {
        if let syn::Item::Mod(m) = it {
            if has_cfg_test(&m.attrs) {
                continue;
            }
            if m.content.is_some() {
                return Err(format!("src/lib.rs:{}: inline module `{}`: not translated", m.span().start().line, m.ident));
            }
            let rel = format!("{}.rs", m.ident);
            if !src.join(&rel).exists() {
                return Err(format!("src/lib.rs:{}: module `{}`: expected src/{}", m.span().start().line, m.ident, rel));
            }
            let full = FULL.contains(&rel.as_str());
            rels.push((rel, full));
        }
    }
    for f in FULL {
        if !rels.iter().any(|(r, _)| r == f) {
            return Err(format!("src/{} is not a module of the crate any more", f));
        }
    }

    let mut files = vec![];
    for (rel, full) in &rels {
        let f = if rel == "lib.rs" { lib.clone() } else { read(rel)? };
        files.push((rel.clone(), *full, f));
    }

    // struct names must be unique in the crate (paths are canonicalised to crate::<Name>)
    let mut all_structs: BTreeMap<String, String> = BTreeMap::new();
    for (rel, _, f) in &files {
        for it in &f.items {
            if let syn::Item::Struct(s) = it {
                if let Some(prev) = all_structs.insert(s.ident.to_string(), rel.clone()) {
                    return Err(format!("struct {} is defined in src/{} and src/{}", s.ident, prev, rel));
                }
            }
        }
    }

    let mut out = Out { defs: vec![], impls: vec![], n_fns: 0 };
    for (rel, full, f) in &files {
        let cx = build_ctx(rel, f, !*full)?;
        for it in &f.items {
            match it {
                syn::Item::Struct(s) => {
                    if *full {
                        out.defs.push(tr_struct(&cx, s)?);
                    } else {
                        return err(&cx, s, "a struct defined outside lib.rs / iter.rs / drain.rs: add the file to FULL");
                    }
                }
                syn::Item::Impl(im) => {
                    let t = tr_impl(&cx, im, *full, &mut out)?;
                    out.impls.push((format!("impl_{}", out.impls.len()), t));
                }
                syn::Item::Macro(m) => {
                    return err(&cx, m, &format!("item-position macro `{}`: the items it expands to cannot be seen by this translator", toks(&m.mac.path)));
                }
                syn::Item::Mod(m) => {
                    if m.content.is_some() && !has_cfg_test(&m.attrs) {
                        return err(&cx, m, "inline module");
                    }
                }
                syn::Item::Enum(_) | syn::Item::Union(_) | syn::Item::Trait(_) | syn::Item::TraitAlias(_) | syn::Item::Type(_) => {
                    if *full {
                        return err(&cx, it, "enum / union / trait / type alias at the top level of a translated file: no image in the model");
                    }
                }
                syn::Item::Fn(_) | syn::Item::Use(_) | syn::Item::Const(_) | syn::Item::Static(_) | syn::Item::ExternCrate(_) => {}
                other => return err(&cx, other, "item not understood"),
            }
        }
        // impls nested in bodies
        let mut nv = Nested { found: vec![], macros: vec![] };
        for it in &f.items {
            match it {
                syn::Item::Fn(func) => nv.visit_block(&func.block),
                syn::Item::Impl(im) => {
                    for ii in &im.items {
                        if let syn::ImplItem::Fn(func) = ii {
                            nv.visit_block(&func.block);
                        }
                    }
                }
                syn::Item::Const(c) => nv.visit_expr(&c.expr),
                syn::Item::Static(c) => nv.visit_expr(&c.expr),
                _ => {}
            }
        }
        if let Some(m) = nv.macros.first() {
            return Err(format!("src/{}: macro definition / item macro `{}` inside a function body", rel, m));
        }
        for im in nv.found {
            let head = self_head(&im.self_ty);
            let outer = head.as_ref().map(|h| all_structs.contains_key(h)).unwrap_or(true);
            // a nested impl for a body-local struct (Dropper, Guard) cannot
            // concern the public types; anything else is translated
            let body_local = head.is_some() && !outer;
            if body_local {
                continue;
            }
            let t = tr_impl(&cx, im, *full, &mut out)?;
            out.impls.push((format!("impl_{}", out.impls.len()), t));
        }
    }

    for need in ["CircularBuffer", "Iter", "IterMut", "IntoIter", "Drain"] {
        if !out.defs.iter().any(|(n, _)| n == &format!("def_{}", need)) {
            return Err(format!("struct {} not found in src/lib.rs, src/iter.rs, src/drain.rs", need));
        }
    }

    let mut s = String::new();
    s.push_str("(* GENERATED by tools/rs2coq_types from <repo>/src/*.rs — do not edit.\n   Regenerated on every run of the C15 check. *)\n");
    s.push_str("From Coq Require Import String List.\nImport ListNotations.\nFrom CBT Require Import TypeModel.\nLocal Open Scope string_scope.\n\n");
    for (n, t) in &out.defs {
        writeln!(s, "Definition {} : struct_def :=\n  {}.\n", n, t).unwrap();
    }
    for (n, t) in &out.impls {
        writeln!(s, "Definition {} : impl_block :=\n  {}.\n", n, t).unwrap();
    }
    writeln!(s, "Definition defs : list struct_def :=\n  {}.\n", list(&out.defs.iter().map(|(n, _)| n.clone()).collect::<Vec<_>>())).unwrap();
    writeln!(s, "Definition impls : list impl_block :=\n  {}.", list(&out.impls.iter().map(|(n, _)| n.clone()).collect::<Vec<_>>())).unwrap();
    std::fs::write(outp, &s).map_err(|e| format!("{}: {}", outp, e))?;
    Ok(format!(
        "rs2coq_types: files={} structs={} impls={} fns={}",
        rels.iter().map(|(r, f)| format!("{}{}", r, if *f { "" } else { "(headers)" })).collect::<Vec<_>>().join(","),
        out.defs.len(),
        out.impls.len(),
        out.n_fns
    ))
}

fn main() {
    let a: Vec<String> = std::env::args().collect();
    if a.len() != 3 {
        eprintln!("usage: rs2coq_types <repo> <out.v>");
        std::process::exit(2);
    }
    match run(&a[1], &a[2]) {
        Ok(m) => println!("{}", m),
        Err(e) => {
            eprintln!("rs2coq_types: UNSUPPORTED: {}", e);
            std::process::exit(1);
        }
    }
}
