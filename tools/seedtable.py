#!/usr/bin/env python3
"""seedtable.py sweep [-j N] [<change> ...] : run every seeded change against its target property's quick check (scratch copies)
   seedtable.py table         : print the markdown table of DESIGN.md section 11 from seeded/*/meta.json + verdicts.json"""
import concurrent.futures
import glob
import json
import os
import subprocess
import sys

V = "/verif"


def target(d):
    m = json.load(open(os.path.join(d, "meta.json")))
    return m.get("breaks_property") or m.get("property")


def sweep(jobs, only=()):
    ds = sorted(glob.glob(os.path.join(V, "seeded", "*-m*")))
    if only:
        ds = [d for d in ds if os.path.basename(d) in only]

    def one(d):
        p = subprocess.run("python3 tools/seedtest.py run %s %s" % (d, target(d)), shell=True, cwd=V,
                           stdout=subprocess.PIPE, stderr=subprocess.STDOUT, text=True)
        return p.stdout.strip().split("\n")[-1][:300]
    with concurrent.futures.ThreadPoolExecutor(max_workers=jobs) as ex:
        for line in ex.map(one, ds):
            print(line, flush=True)


def table():
    rows = []
    for d in sorted(glob.glob(os.path.join(V, "seeded", "*-m*"))):
        name = os.path.basename(d)
        m = json.load(open(os.path.join(d, "meta.json")))
        try:
            v = json.load(open(os.path.join(d, "verdicts.json")))
        except Exception:
            v = {}
        t = m.get("breaks_property") or m.get("property")
        def fmt(p, x):
            if isinstance(x, str):
                x = {"verdict": x, "no_failing_input": None}
            if x["verdict"] != "CAUGHT":
                return None
            s = p + ("°" if x.get("no_failing_input") else "")
            return "**%s**" % s if p == t else s
        caught = [fmt(p, x) for p, x in sorted(v.items())]
        caught = [c for c in caught if c]
        tv = v.get(t)
        tv = tv if isinstance(tv, dict) else {"verdict": tv}
        status = "missed" if tv.get("verdict") == "MISSED" else ("" if tv.get("verdict") == "CAUGHT" else "not run")
        rows.append("| %s | %s | %s | %s %s |" % (name, (m.get("summary") or "").replace("|", "/")[:150],
                                                  (m.get("needs") or "").replace("|", "/")[:150], " ".join(caught), status))
    print("| change | what it does | needs | caught by (° = no-failing-input-found) |")
    print("|---|---|---|---|")
    print("\n".join(rows))


if __name__ == "__main__":
    if sys.argv[1] == "sweep":
        sweep(int(sys.argv[sys.argv.index("-j") + 1]) if "-j" in sys.argv else 4,
              only=[a for a in sys.argv[2:] if "-m" in a])
    else:
        table()
