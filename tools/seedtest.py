#!/usr/bin/env python3
"""Evaluate seeded changes (realistic breakages of a property) against the checks.

  seedtest.py confirm <mutation-dir> <worktree>
      confirm in a scratch worktree of /repo that, with patch.diff applied, the
      crate's own test suite still passes and demo.rs fails, and that demo.rs
      passes without the patch
  seedtest.py run <seeded-dir> [<property> ...]
      copy /verif and /repo to /tmp/mv/<name>, apply the patch to the copy of
      /repo and run the named checks (default: all) there; prints one line per
      check: CAUGHT (exit 1 + VIOLATION line) or MISSED (exit 0)

The registered checks themselves are never run from here: this is the tool
that fills DESIGN.md's table of which check catches which change. The official
procedure (git -C /repo apply; ./check ...; git -C /repo checkout -- .) gives the
same verdicts; scratch copies only make it possible to evaluate several changes
at once without touching /repo."""
import json
import os
import re
import shutil
import subprocess
import sys


def sh(cmd, cwd=None, env=None, timeout=3600):
    e = dict(os.environ)
    e.update(env or {})
    # own process group, so that a timeout takes the whole tree down (check.py, cargo, driver shards)
    p = subprocess.Popen(cmd, shell=True, cwd=cwd, env=e, stdout=subprocess.PIPE, stderr=subprocess.STDOUT, text=True,
                         start_new_session=True)
    try:
        out, _ = p.communicate(timeout=timeout)
    except subprocess.TimeoutExpired:
        import signal
        os.killpg(p.pid, signal.SIGKILL)
        out, _ = p.communicate()
        return 124, (out or "") + "\nTIMEOUT after %ds" % timeout
    return p.returncode, out


def confirm(mdir, wt):
    env = {"CARGO_TARGET_DIR": os.path.join(wt, "target"), "CARGO_NET_OFFLINE": "true"}
    res = {}
    sh("git checkout -- . && rm -f tests/zz_demo.rs", cwd=wt)
    rc, out = sh("git apply %s/patch.diff" % mdir, cwd=wt)
    if rc != 0:
        return {"error": "patch does not apply: " + out[-500:]}
    rc, out = sh("cargo test --offline 2>&1", cwd=wt, env=env)
    passed = sum(int(x) for x in re.findall(r"test result: ok\. (\d+) passed", out))
    failed = sum(int(x) for x in re.findall(r"(\d+) failed", out))
    res["suite_with_patch"] = {"rc": rc, "passed": passed, "failed": failed}
    shutil.copy(os.path.join(mdir, "demo.rs"), os.path.join(wt, "tests", "zz_demo.rs"))
    rc, out = sh("cargo test --offline --test zz_demo 2>&1", cwd=wt, env=env)
    res["demo_with_patch"] = {"rc": rc, "tail": out[-400:]}
    sh("git checkout -- .", cwd=wt)
    rc, out = sh("cargo test --offline --test zz_demo 2>&1", cwd=wt, env=env)
    res["demo_without_patch"] = {"rc": rc}
    os.remove(os.path.join(wt, "tests", "zz_demo.rs"))
    res["confirmed"] = (res["suite_with_patch"]["rc"] == 0 and res["suite_with_patch"]["failed"] == 0 and
                        res["demo_with_patch"]["rc"] != 0 and res["demo_without_patch"]["rc"] == 0)
    return res


def run(sdir, props):
    name = os.path.basename(os.path.normpath(sdir))
    root = os.path.join("/tmp/mv", name)
    shutil.rmtree(root, ignore_errors=True)
    os.makedirs(root)
    v, r = os.path.join(root, "verif"), os.path.join(root, "repo")
    sh("rsync -a --exclude .git --exclude .cache/work --exclude replays --exclude evidence --exclude '.cache/harness-alt' /verif/ %s/" % v)
    sh("rsync -a --exclude target /repo/ %s/" % r)
    rc, out = sh("git apply %s/patch.diff" % os.path.abspath(sdir), cwd=r)
    if rc != 0:
        print("patch does not apply:", out)
        return 2
    env = {"VERIF_ROOT": v, "VERIF_REPO": r}
    if not props:
        props = [c["property_id"] for c in json.load(open("/verif/MANIFEST.json"))["checks"]]
    verdicts = {}
    for p in props:
        rc, out = sh("python3 tools/check.py %s quick" % p, cwd=v, env=env)
        viol = [l for l in out.split("\n") if l.startswith("VIOLATION")]
        verdict = "CAUGHT" if rc == 1 and viol else ("MISSED" if rc == 0 else "ERROR rc=%d" % rc)
        why = ""
        if viol:
            m = re.search(r"replay=(\S+)", viol[0])
            try:
                d = json.load(open(m.group(1)))
                why = (d.get("reason") or json.dumps(d.get("what"))[:300])
                if viol[0].rstrip().endswith("no-failing-input-found"):
                    why = "[no-failing-input-found] " + why
            except Exception:
                pass
        verdicts[p] = {"verdict": verdict, "no_failing_input": bool(viol and viol[0].rstrip().endswith("no-failing-input-found")),
                       "why": why[:400]}
        print("%s %s %s %s" % (name, p, verdict, why[:260]), flush=True)
        if verdict.startswith("ERROR"):
            print(out[-1500:])
    vf = os.path.join(os.path.abspath(sdir), "verdicts.json")
    old = {}
    try:
        old = json.load(open(vf))
    except Exception:
        pass
    for k, v in list(old.items()):      # earlier format: plain strings
        if isinstance(v, str):
            old[k] = {"verdict": v, "no_failing_input": None, "why": "", "stale": True}
        else:
            v["stale"] = True
    old.update(verdicts)
    json.dump(old, open(vf, "w"), indent=1, sort_keys=True)
    shutil.rmtree(root, ignore_errors=True)
    return 0


if __name__ == "__main__":
    if sys.argv[1] == "confirm":
        print(json.dumps(confirm(os.path.abspath(sys.argv[2]), sys.argv[3]), indent=1))
    else:
        sys.exit(run(sys.argv[2], sys.argv[3:]))
