#!/usr/bin/env python3
"""setup: build the Coq development (full .vo), the extracted OCaml driver and
the Rust harness in every configuration, from files on disk only (offline)."""
import concurrent.futures
import os
import sys
import time

sys.path.insert(0, os.path.dirname(os.path.abspath(__file__)))
import engine as E  # noqa: E402


def main():
    t0 = time.time()
    os.makedirs(E.CACHE, exist_ok=True)
    ok, out = E.build_coq()
    print("coq: %s (%.0fs)" % ("ok" if ok else "FAILED", time.time() - t0))
    if not ok:
        print(out[-3000:])
        return 1
    ok, out = E.build_driver()
    print("driver: %s (%.0fs)" % ("ok" if ok else "FAILED", time.time() - t0))
    if not ok:
        print(out[-3000:])
        return 1
    bad = 0
    with concurrent.futures.ThreadPoolExecutor(max_workers=4) as ex:
        futs = {cfg: ex.submit(E.build_harness, cfg) for cfg in E.CONFIGS}
        for cfg, f in futs.items():
            ok, out = f.result()
            print("harness %s: %s (%.0fs)" % (cfg, "ok" if ok else "FAILED", time.time() - t0))
            if not ok:
                print(out[-3000:])
                bad += 1
    import c15
    import c19arith
    import srcfp
    import coregen
    extra = [c15.build_translator, getattr(c19arith, "build_translator", None), srcfp.build_tool, getattr(coregen, "build_translator", None)]
    for tool in [t for t in extra if t]:
        r = tool()
        ok, out = bool(r[0]), r[1]
        print("%s.%s: %s (%.0fs)" % (tool.__module__, tool.__name__, "ok" if ok else "FAILED", time.time() - t0))
        if not ok:
            print(out[-3000:])
            bad += 1
    return 1 if bad else 0


if __name__ == "__main__":
    sys.exit(main())
