"""Checks that do not follow the generic plan (C15, C17) and the replay command."""

import json
import os
import sys

import engine as E

import c15

SPECIAL = {"C15": c15.run}


def replay(pid, path):
    import check as CK
    import props as P
    import cases as C
    d = json.load(open(path))
    if "case" not in d:
        print(json.dumps(d, indent=1)[:4000])
        print("replay: this file names a theorem / correspondence, not an input")
        return 1
    plan = P.ALL[pid]
    cfg = d.get("cfg", "dev")
    if d.get("extra_caps"):
        os.environ["VERIF_EXTRA_CAPS"] = ",".join(map(str, d["extra_caps"]))
    ok, driver = E.build_driver()
    ok2, harness = E.build_harness(cfg)
    if not (ok and ok2):
        print("build failed")
        return 1
    wd = os.path.join(E.CACHE, "work", "replay")
    os.makedirs(wd, exist_ok=True)
    open(os.path.join(wd, "r.cases"), "w").write(d["case"])
    rc, out = E.sh("%s %s/r.cases %s/r.m" % (driver, wd, wd))
    if os.path.exists(wd + "/r.i"):
        os.remove(wd + "/r.i")
    rc2, out2 = E.sh("%s %s/r.cases %s/r.i" % (harness, wd, wd))
    print(open(wd + "/r.m").read())
    print(open(wd + "/r.i").read() if os.path.exists(wd + "/r.i") else out2)
    print("recorded reason:", d.get("reason"))
    return 1
