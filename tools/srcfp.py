#!/usr/bin/env python3
"""Source fingerprints: which text was the hand-written Coq model written against?

The Coq model has one Gallina definition per Rust function, written against the text of
E.REPO/src at one commit.  Differential testing ties model and code together only on the
enumerated case space, so a change gated on a size the case space never reaches (`if N > 1024`,
`size_of::<T>() > 64`, `as u32`) is invisible to it.  This module therefore records a
fingerprint (SHA-256 of the canonical token text) of every function of the crate
(tools/srcmap, a syn-based scanner) in tools/source_fingerprint.json and, for a property,

  * finds the functions the property depends on (its roots plus everything reachable through the
    over-approximated call graph, in both cfg variants),
  * reports which of them differ from the recorded text (the property is then NOT shown to hold
    for this source: the model is no longer known to be an image of the function), and
  * extracts from the changed text the new integer literals, from which `thresholds` derives the
    capacities / lengths a widened search for a failing input should visit.

    python3 tools/srcfp.py baseline            # record E.REPO as the reference text
    python3 tools/srcfp.py check C09 [repo]    # exit status 0 iff ok
    python3 tools/srcfp.py deps C09 [repo]     # the dependency set
    python3 tools/srcfp.py all [repo]          # one line per property
"""

import json
import os
import re
import sys
import time

sys.path.insert(0, os.path.dirname(os.path.abspath(__file__)))
import engine as E  # noqa: E402

TOOL_DIR = os.path.join(E.VERIF, "tools", "srcmap")
BASELINE = E.VERIF + "/tools/source_fingerprint.json"
SECTIONS = ("items", "consts", "statics", "types", "macros", "preambles")
ELEM_SIZES = (1, 16, 256)  # size_of of the element types used by the harness (u8; E/NE; B/NB)
OTHER_SIZES = (2, 4, 8, 32)


# ---------------------------------------------------------------- scanner

def build_tool():
    """Builds tools/srcmap; returns (path of the executable or None, build log)."""
    tdir = os.path.join(E.CACHE, "target-srcmap")
    exe = os.path.join(tdir, "debug", "srcmap")
    env = {"CARGO_TARGET_DIR": tdir, "CARGO_NET_OFFLINE": "true"}
    rc, out = E.sh("cargo build --offline --locked 2>&1", cwd=TOOL_DIR, env=env, timeout=900)
    if rc != 0 or not os.path.exists(exe):
        return None, out
    return exe, out


_EXE = [None]
_SCANS = {}


def _stamp(repo):
    st = []
    src = os.path.join(repo, "src")
    for d, _, fs in sorted(os.walk(src)):
        for f in sorted(fs):
            p = os.path.join(d, f)
            s = os.stat(p)
            st.append((p, s.st_mtime_ns, s.st_size))
    return tuple(st)


def scan(repo):
    """Runs the scanner on `repo` and returns its JSON output; raises RuntimeError if the tool cannot
    be built or the source does not parse."""
    repo = os.path.abspath(repo)
    key = _stamp(repo)
    if repo in _SCANS and _SCANS[repo][0] == key:
        return _SCANS[repo][1]
    if _EXE[0] is None:
        exe, log = build_tool()
        if exe is None:
            raise RuntimeError("cannot build tools/srcmap:\n" + log[-3000:])
        _EXE[0] = exe
    rc, out = E.sh("%s %s" % (_EXE[0], repo), timeout=120)
    if rc != 0:
        raise RuntimeError("srcmap failed on %s (exit %d): %s" % (repo, rc, out.strip()[-2000:]))
    try:
        d = json.loads(out)
    except ValueError as ex:
        raise RuntimeError("srcmap printed invalid JSON: %s" % ex)
    _SCANS[repo] = (key, d)
    return d


def nodes(sc):
    """name -> node for every node of a scan (functions, consts, statics, types, marker impls, macros,
    file preambles).  Works on scanner output and on the baseline file alike."""
    if "nodes" in sc:
        return sc["nodes"]
    m = {}
    for sec in SECTIONS:
        for it in sc.get(sec, []):
            m[it["name"]] = it
    return m


def is_fn(node):
    return node.get("kind") in ("fn", "method", "trait_method", "nested")


# ---------------------------------------------------------------- baseline

KEEP = ("kind", "hash", "file", "line", "vis", "cfg", "literals", "features", "callees", "refs")


def write_baseline(repo=None):
    sc = scan(repo or E.REPO)
    out = {
        "comment": "fingerprints of the source text the Coq model was written against; "
                   "regenerate with `python3 tools/srcfp.py baseline` after re-auditing the model",
        "hash_alg": sc["hash_alg"],
        "files": sc["files"],
        "skipped_files": sc["skipped_files"],
        "dead_files": sc["dead_files"],
        "nodes": {n: {k: v[k] for k in KEEP if k in v} for n, v in sorted(nodes(sc).items())},
    }
    with open(BASELINE, "w") as f:
        json.dump(out, f, indent=1, sort_keys=True)
        f.write("\n")
    return out


def load_baseline():
    with open(BASELINE) as f:
        return json.load(f)


# ---------------------------------------------------------------- roots

ALL = "ALL"
_V = r"(?:@\w+)?(?:#\d+)?$"


def M(*names):
    """inherent methods of CircularBuffer (names are regex fragments)"""
    return [r"^CircularBuffer::(?:%s)%s" % ("|".join(names), _V)]


def F(*names):
    """free functions"""
    return [r"^(?:%s)%s" % ("|".join(names), _V)]


def IMPL(trait, ty="CircularBuffer"):
    """every method of every `impl <trait> for [&][mut] <ty>`"""
    return [r"^<&?(?:mut )?%s as (?:\w+::)*(?:%s)(?:<.*>)?>::" % (ty, trait)]


def EVERY(*tys):
    """every inherent and trait method of the types"""
    t = "|".join(tys)
    return [r"^(?:%s)::" % t, r"^<&?(?:mut )?(?:%s) as .*>::" % t]


def FILE(f):
    return ["file=" + f]


ROOTS = {
    "C04": ALL, "C11": ALL, "C17": ALL, "C18": ALL, "C19": ALL,
    # the mutators (and the bookkeeping observers the property names)
    "C01": M("len", "capacity", "is_empty", "is_full", "push_back", "push_front", r"try_push_\w+", r"pop_\w+", "remove", "swap",
             r"swap_remove_\w+", r"truncate_\w+", "clear", "extend_from_slice", r"fill\w*", "drain", "make_contiguous",
             "get_mut", r"nth_\w+_mut", "front_mut", "back_mut", "as_mut_slices", "iter_mut", "range_mut")
    + IMPL("Extend|IndexMut") + EVERY("Drain", "IterMut"),
    # ownership can be broken by anything that moves bits around (make_contiguous, swap, remove ...): everything
    "C03": ALL,
    "C02": M("push_back", "push_front", "try_push_back", "try_push_front"),
    "C05": M("truncate_back", "truncate_front", "clear", "fill", "fill_with", "fill_spare", "extend_from_slice",
             "drain", "into_iter")
    + IMPL("Extend|FromIterator|From|Clone|Drop|IntoIterator") + EVERY("Drain", "IntoIter"),
    "C06": M("fill", "fill_spare", "fill_with", "fill_spare_with", "extend_from_slice", "to_vec")
    + IMPL("Extend|FromIterator|Clone|PartialEq|PartialOrd|Ord|Hash|Debug"),
    "C07": M("get", "get_mut", "nth_front", "nth_front_mut", "nth_back", "nth_back_mut", "front", "front_mut", "back",
             "back_mut", "iter", "iter_mut", "range", "range_mut", "as_slices", "as_mut_slices", "make_contiguous",
             "to_vec")
    + IMPL("Index|IndexMut|Debug") + EVERY("Iter", "IterMut"),
    "C08": M("iter", "iter_mut", "range", "range_mut", "into_iter") + IMPL("IntoIterator")
    + EVERY("Iter", "IterMut", "IntoIter") + F("translate_range_bounds", r"slice_take\w*"),
    "C09": M("drain") + EVERY("Drain", "CircularSlicePtr") + F("translate_range_bounds"),
    "C10": M("drain") + EVERY("Drain", "CircularSlicePtr") + F("translate_range_bounds"),
    "C12": M("new", "boxed", "to_vec") + IMPL("Default|From|FromIterator|Clone|IntoIterator") + EVERY("IntoIter"),
    "C13": IMPL("PartialEq|PartialOrd|Ord|Hash|Debug")
    + IMPL("PartialEq|PartialOrd|Ord|Hash|Debug", ty=r"(?:Iter|IterMut|IntoIter|Drain)"),
    "C14": FILE("src/io.rs"),
    "C15": [],
    "C16": FILE("src/io.rs") + FILE("src/embedded_io.rs"),
    "C20": M("push_back", "push_front", r"try_push_\w+", r"pop_\w+", "swap", r"swap_remove_\w+", r"get\w*", r"nth_\w+",
             r"front\w*", r"back\w*", "as_slices", r"truncate_\w+", "clear", "remove", "drain", "make_contiguous")
    + EVERY("Drain"),
}


def roots(pid, sc):
    """names of the root items of property `pid` present in the scan"""
    ns = nodes(sc)
    spec = ROOTS[pid]
    if spec == ALL:
        # every function; types, consts, macros come in through the references of the functions that use
        # them. Marker impls without methods (Send, Sync, Eq, FusedIterator ...) are not operations: C15's business
        return {n for n, v in ns.items() if is_fn(v)}
    out = set()
    for pat in spec:
        if pat.startswith("file="):
            f = pat[5:]
            out |= {n for n, v in ns.items() if v.get("file") == f and (is_fn(v) or v.get("kind") in ("impl", "macro_call"))}
        else:
            rx = re.compile(pat)
            out |= {n for n, v in ns.items() if is_fn(v) and rx.search(n)}
    return out


def depends(pid, sc):
    """roots of `pid` plus everything reachable through callees (functions; resolved by identifier,
    hence in both cfg variants) and refs (types, consts, statics, macros, file preambles)"""
    ns = nodes(sc)
    seen = set()
    todo = list(roots(pid, sc))
    while todo:
        n = todo.pop()
        if n in seen or n not in ns:
            continue
        seen.add(n)
        if n.startswith(("file:", "type:", "impl:")):
            # a file preamble (imports, inner attributes), a type definition or a marker impl matters to the
            # functions that refer to it, but what IT refers to (every imported type, the derives of every
            # field type ...) does not become a dependency of those functions
            continue
        todo.extend(ns[n].get("callees", []))
        todo.extend(ns[n].get("refs", []))
    return seen


def affected_names(changed, repo=None):
    """simple names (last path segment) of every function whose callee/reference closure contains a changed item:
    the API entry points through which a change can be exercised"""
    sc = scan(repo or E.REPO)
    ns = nodes(sc)
    changed = set(changed)
    memo = {}

    def reach(n):
        if n in memo:
            return memo[n]
        memo[n] = n in changed          # cycles: provisional
        if n in ns and not memo[n] and not n.startswith(("file:", "type:", "impl:")):
            for m in ns[n].get("callees", []) + ns[n].get("refs", []):
                if m in changed or (m in ns and reach(m)):
                    memo[n] = True
                    break
        return memo[n]
    out = set()
    for n, v in ns.items():
        if is_fn(v) and reach(n):
            out.add(n.split("::")[-1].split("@")[0])
    return out


# ---------------------------------------------------------------- check

def _ints(node):
    return {int(x) for x in node.get("literals", [])}


def check(pid, repo=None):
    """Compares the functions property `pid` depends on with the recorded fingerprints."""
    repo = repo or E.REPO
    res = {"property": pid, "repo": repo, "ok": False, "changed": [], "removed": [], "new_items": [],
           "new_literals": [], "new_features": [], "dead_files_changed": [], "functions_total": 0,
           "functions_in_scope": 0, "detail": {}, "message": ""}
    try:
        sc = scan(repo)
        base = load_baseline()
    except (RuntimeError, OSError, ValueError) as ex:
        res["error"] = str(ex)
        res["message"] = "%s: NOT SHOWN: the source could not be fingerprinted: %s" % (pid, ex)
        return res
    now, old = nodes(sc), nodes(base)
    dep_now, dep_old = depends(pid, sc), depends(pid, base)
    is_all = ROOTS[pid] == ALL
    changed = sorted(n for n in dep_now if n not in old or old[n]["hash"] != now[n]["hash"])
    removed = sorted(n for n in dep_old if n not in now)
    new_items = sorted(n for n in now if n not in old
                       and ((is_all and is_fn(now[n])) or n in dep_now or (ROOTS[pid] and now[n].get("vis") == "pub")))
    lits, feats = set(), set()
    for n in sorted(set(changed) | set(new_items)):
        o = old.get(n, {})
        nl = sorted(_ints(now[n]) - _ints(o))
        nf = sorted(set(now[n].get("features", [])) - set(o.get("features", [])))
        nc = sorted(set(now[n].get("callees", [])) - set(o.get("callees", [])))
        res["detail"][n] = {"status": "changed" if n in old else "new", "kind": now[n].get("kind"),
                            "file": now[n].get("file"), "line": now[n].get("line"), "new_literals": nl,
                            "new_features": nf, "new_callees": nc}
        lits |= set(nl)
        feats |= set(nf)
    d_now = {d["file"]: d["hash"] for d in sc.get("dead_files", [])}
    d_old = {d["file"]: d["hash"] for d in base.get("dead_files", [])}
    res["dead_files_changed"] = sorted(f for f in set(d_now) | set(d_old) if d_now.get(f) != d_old.get(f))
    res["changed"], res["removed"], res["new_items"] = changed, removed, new_items
    res["new_literals"], res["new_features"] = sorted(lits), sorted(feats)
    res["functions_total"] = sum(1 for v in now.values() if is_fn(v))
    res["functions_in_scope"] = sum(1 for n in dep_now if is_fn(now[n]))
    res["ok"] = not (changed or removed or new_items)
    if res["ok"]:
        res["message"] = "%s: the text of all %d functions it depends on (of %d) is the text the model was written " \
                         "against" % (pid, res["functions_in_scope"], res["functions_total"])
    else:
        parts = []
        if changed:
            parts.append("changed: " + ", ".join(changed))
        if removed:
            parts.append("removed: " + ", ".join(removed))
        extra = [n for n in new_items if n not in changed]
        if extra:
            parts.append("new: " + ", ".join(extra))
        res["message"] = ("%s: NOT SHOWN for this source: the model was written against a different text of the "
                          "functions it depends on, and the case space may not reach the difference (%s)"
                          % (pid, "; ".join(parts)))
        if res["new_literals"]:
            res["message"] += "; new literals %s" % res["new_literals"]
        if res["new_features"]:
            res["message"] += "; new features %s" % res["new_features"]
    return res


def thresholds(result):
    """Capacities / lengths at which a widened search should look, from the new literals; most telling first:
    the largest literal (usually the effective constant, e.g. the product 64 * 1024) divided by the element sizes
    of the harness, then its neighbours, then the same for the smaller literals."""
    out = []
    lits = sorted((l for l in result.get("new_literals", []) if 2 <= l <= 2 ** 20), reverse=True)
    for rnd in range(3):
        for lit in lits:
            if rnd == 0:
                c = [lit // s for s in ELEM_SIZES] + [lit // s + 1 for s in ELEM_SIZES]
            elif rnd == 1:
                c = [lit - 1, lit, lit + 1] + [2 * (lit // s) + 2 for s in ELEM_SIZES]
            else:
                c = [2 * lit] + [lit // s for s in OTHER_SIZES] + [lit // s + 1 for s in OTHER_SIZES]
            out += [x for x in c if 8 < x <= 2 ** 21 and x not in out]
    return out


# ---------------------------------------------------------------- command line

def main(argv):
    if len(argv) >= 2 and argv[1] == "baseline":
        t = time.time()
        b = write_baseline(argv[2] if len(argv) > 2 else None)
        print("wrote %s: %d nodes (%d functions), dead files %s, %.1fs"
              % (BASELINE, len(b["nodes"]), sum(1 for v in b["nodes"].values() if is_fn(v)),
                 [d["file"] for d in b["dead_files"]], time.time() - t))
        return 0
    if len(argv) >= 3 and argv[1] == "check" and argv[2] in ROOTS:
        r = check(argv[2], argv[3] if len(argv) > 3 else None)
        r["thresholds"] = thresholds(r)
        print(json.dumps(r, indent=1, sort_keys=True))
        return 0 if r["ok"] else 1
    if len(argv) >= 3 and argv[1] == "deps" and argv[2] in ROOTS:
        sc = scan(argv[3] if len(argv) > 3 else E.REPO)
        for n in sorted(depends(argv[2], sc)):
            print(n)
        return 0
    if len(argv) >= 2 and argv[1] == "all":
        bad = 0
        for pid in sorted(ROOTS):
            r = check(pid, argv[2] if len(argv) > 2 else None)
            bad += not r["ok"]
            print("%s %-4s scope %3d/%d  %s" % (pid, "ok" if r["ok"] else "FAIL", r["functions_in_scope"],
                                                 r["functions_total"], "" if r["ok"] else r["message"]))
            if not r["ok"] and thresholds(r):
                print("     thresholds %s" % thresholds(r))
        return 1 if bad else 0
    sys.stderr.write(__doc__)
    return 2


if __name__ == "__main__":
    sys.exit(main(sys.argv))
