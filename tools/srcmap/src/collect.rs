//! Walks the module tree of the crate and collects one `Node` per function-like item (and per
//! type, const, static, macro and file preamble).

use crate::sha256;
use crate::tokens::{self, Scan};
use proc_macro2::TokenStream;
use quote::ToTokens;
use std::collections::{BTreeMap, BTreeSet};
use std::path::{Path, PathBuf};
use syn::visit::Visit;

#[derive(Debug)]
#[allow(dead_code)]
pub struct Node {
    /// "fn" | "method" | "trait_method" | "nested" | "type" | "const" | "static" | "macro" | "macro_call" | "file"
    pub kind: &'static str,
    pub name: String,
    /// last identifier (what a call site would mention)
    pub short: String,
    /// base identifier of the `Self` type of the enclosing impl, if any
    pub self_base: Option<String>,
    /// last segment / path as written of the implemented trait, if any
    pub trait_last: Option<String>,
    pub trait_path: Option<String>,
    pub alt_name: Option<String>,
    pub module: Vec<String>,
    pub file: String,
    pub line: usize,
    pub cfg: Vec<String>,
    pub vis: &'static str,
    pub hash: String,
    pub scan: Scan,
    /// crate types named in the signature/body (not in the impl header); `Self`/by-value `self` included
    pub by_value_self: bool,
    /// receiver: "none" | "ref" | "mut" | "value"; `shared_self_ty`: the impl is for `&Type`
    pub recv: &'static str,
    pub shared_self_ty: bool,
    pub children: Vec<usize>,
    pub derives: Vec<String>,
    pub value: Option<i128>,
    pub expr: Option<String>,
    pub ty: Option<String>,
    /// idents of the impl header only (used for type references)
    pub header_idents: BTreeSet<String>,
}

pub struct Crate {
    pub nodes: Vec<Node>,
    pub visited: Vec<String>,
    pub skipped: Vec<(String, String)>,
    pub modules: BTreeSet<String>,
    pub generics: BTreeSet<String>,
    pub const_exprs: BTreeMap<String, syn::Expr>,
}

#[derive(Clone)]
struct Ctx {
    file: String,
    cfg: Vec<String>,
    module: Vec<String>,
    /// qualified name of the enclosing function for nested items
    outer: Option<String>,
}

pub fn fail(msg: &str) -> ! {
    eprintln!("srcmap: error: {}", msg);
    std::process::exit(2);
}

fn cfgs_of(attrs: &[syn::Attribute]) -> Vec<String> {
    attrs
        .iter()
        .filter(|a| a.path().is_ident("cfg"))
        .map(|a| tokens::compact(a.meta.to_token_stream(), false))
        .collect()
}

/// `cfg(test)`, `cfg(all(test, ..))` ... but not `cfg(not(test))`
fn is_test_cfg(attrs: &[syn::Attribute]) -> bool {
    attrs.iter().filter(|a| a.path().is_ident("cfg")).any(|a| {
        let s = tokens::canon(a.meta.to_token_stream());
        let w: Vec<&str> = s.split(' ').collect();
        w.contains(&"test") && !w.contains(&"not")
    })
}

fn vis_of(v: &syn::Visibility) -> &'static str {
    match v {
        syn::Visibility::Public(_) => "pub",
        syn::Visibility::Restricted(_) => "crate",
        syn::Visibility::Inherited => "private",
    }
}

fn non_doc_attrs(attrs: &[syn::Attribute]) -> TokenStream {
    let mut t = TokenStream::new();
    for a in attrs {
        if !a.path().is_ident("doc") {
            a.to_tokens(&mut t);
        }
    }
    t
}

/// (display name, base identifier) of a type: `&'a mut CircularBuffer<N, T>` -> ("&mut CircularBuffer", "CircularBuffer")
fn type_name(ty: &syn::Type) -> (String, Option<String>) {
    match ty {
        syn::Type::Path(p) if p.qself.is_none() => {
            let id = p.path.segments.last().map(|s| s.ident.to_string()).unwrap_or_default();
            (id.clone(), Some(id))
        }
        syn::Type::Reference(r) => {
            let (d, b) = type_name(&r.elem);
            (format!("&{}{}", if r.mutability.is_some() { "mut " } else { "" }, d), b)
        }
        syn::Type::Paren(p) => type_name(&p.elem),
        syn::Type::Group(p) => type_name(&p.elem),
        other => (tokens::compact(other.to_token_stream(), true), None),
    }
}

fn generic_names(g: &syn::Generics, out: &mut BTreeSet<String>) {
    for p in &g.params {
        match p {
            syn::GenericParam::Type(t) => {
                out.insert(t.ident.to_string());
            }
            syn::GenericParam::Const(c) => {
                out.insert(c.ident.to_string());
            }
            _ => {}
        }
    }
}

fn blank(kind: &'static str, name: String, short: String, cx: &Ctx, line: usize) -> Node {
    Node {
        kind,
        name,
        short,
        self_base: None,
        trait_last: None,
        trait_path: None,
        alt_name: None,
        module: cx.module.clone(),
        file: cx.file.clone(),
        line,
        cfg: cx.cfg.clone(),
        vis: "private",
        hash: String::new(),
        scan: Scan::default(),
        by_value_self: false,
        recv: "none",
        shared_self_ty: false,
        children: Vec::new(),
        derives: Vec::new(),
        value: None,
        expr: None,
        ty: None,
        header_idents: BTreeSet::new(),
    }
}

struct ImplInfo {
    header: TokenStream,
    self_disp: String,
    self_base: Option<String>,
    trait_last: Option<String>,
    trait_disp: Option<String>,
    trait_path: Option<String>,
}

fn impl_info(imp: &syn::ItemImpl) -> ImplInfo {
    let mut h = non_doc_attrs(&imp.attrs);
    imp.defaultness.to_tokens(&mut h);
    imp.unsafety.to_tokens(&mut h);
    imp.impl_token.to_tokens(&mut h);
    imp.generics.to_tokens(&mut h);
    if let Some((bang, path, for_)) = &imp.trait_ {
        bang.to_tokens(&mut h);
        path.to_tokens(&mut h);
        for_.to_tokens(&mut h);
    }
    imp.self_ty.to_tokens(&mut h);
    imp.generics.where_clause.to_tokens(&mut h);
    // associated types and anything else that is neither a function nor a const belong to the
    // header: they are then covered by the hash of every method of the block
    for ii in &imp.items {
        if !matches!(ii, syn::ImplItem::Fn(_) | syn::ImplItem::Const(_)) {
            ii.to_tokens(&mut h);
        }
    }
    let (self_disp, self_base) = type_name(&imp.self_ty);
    let (mut trait_last, mut trait_disp, mut trait_path) = (None, None, None);
    if let Some((_, path, _)) = &imp.trait_ {
        if let Some(seg) = path.segments.last() {
            trait_last = Some(seg.ident.to_string());
            trait_disp = Some(tokens::compact(seg.to_token_stream(), true));
            trait_path = Some(tokens::compact(path.to_token_stream(), true));
        }
    }
    ImplInfo { header: h, self_disp, self_base, trait_last, trait_disp, trait_path }
}

pub struct Collector {
    pub krate: Crate,
    root: PathBuf,
}

impl Collector {
    pub fn new(root: &Path) -> Self {
        Collector {
            krate: Crate {
                nodes: Vec::new(),
                visited: Vec::new(),
                skipped: Vec::new(),
                modules: BTreeSet::new(),
                generics: BTreeSet::new(),
                const_exprs: BTreeMap::new(),
            },
            root: root.to_path_buf(),
        }
    }

    fn rel(&self, p: &Path) -> String {
        p.strip_prefix(&self.root).unwrap_or(p).to_string_lossy().to_string()
    }

    pub fn file(&mut self, path: &Path, cfg: Vec<String>, module: Vec<String>) {
        let text = std::fs::read_to_string(path).unwrap_or_else(|e| fail(&format!("cannot read {}: {}", path.display(), e)));
        let ast = syn::parse_file(&text).unwrap_or_else(|e| {
            let s = e.span().start();
            fail(&format!("parse failure in {}:{}:{}: {}", path.display(), s.line, s.column + 1, e))
        });
        let rel = self.rel(path);
        self.krate.visited.push(rel.clone());
        let cx = Ctx { file: rel.clone(), cfg, module, outer: None };
        // preamble: inner attributes, use / extern crate / mod declarations and anything else that
        // is not reported as an item of its own
        let mut pre = TokenStream::new();
        for a in &ast.attrs {
            if !a.path().is_ident("doc") {
                a.to_tokens(&mut pre);
            }
        }
        self.items(&ast.items, &cx, path, &mut pre);
        let mut n = blank("file", format!("file:{}", rel), rel.clone(), &cx, 1);
        let pre = tokens::strip_docs(pre);
        n.hash = sha256::hex(tokens::canon(pre.clone()).as_bytes());
        tokens::scan_stream(pre, &mut n.scan);
        n.scan.calls.clear();
        n.scan.self_args.clear();
        self.krate.nodes.push(n);
    }

    fn items(&mut self, items: &[syn::Item], cx: &Ctx, path: &Path, pre: &mut TokenStream) {
        for it in items {
            self.item(it, cx, path, pre);
        }
    }

    fn with_cfg(cx: &Ctx, attrs: &[syn::Attribute]) -> Ctx {
        let mut c = cx.clone();
        c.cfg.extend(cfgs_of(attrs));
        c
    }

    fn item(&mut self, it: &syn::Item, cx: &Ctx, path: &Path, pre: &mut TokenStream) {
        match it {
            syn::Item::Fn(f) => {
                if is_test_cfg(&f.attrs) {
                    return;
                }
                let c = Self::with_cfg(cx, &f.attrs);
                self.function(&f.attrs, &f.vis, &f.sig, Some(&f.block), f.to_token_stream(), &c, None);
            }
            syn::Item::Impl(imp) => {
                if is_test_cfg(&imp.attrs) {
                    return;
                }
                let c = Self::with_cfg(cx, &imp.attrs);
                self.impl_block(imp, &c);
            }
            syn::Item::Trait(tr) => {
                if is_test_cfg(&tr.attrs) {
                    return;
                }
                let c = Self::with_cfg(cx, &tr.attrs);
                generic_names(&tr.generics, &mut self.krate.generics);
                self.type_item(&tr.ident, &tr.attrs, &tr.vis, tr.to_token_stream(), &c);
                for ti in &tr.items {
                    if let syn::TraitItem::Fn(m) = ti {
                        if let Some(b) = &m.default {
                            let c2 = Self::with_cfg(&c, &m.attrs);
                            let info = ImplInfo {
                                header: TokenStream::new(),
                                self_disp: tr.ident.to_string(),
                                self_base: Some(tr.ident.to_string()),
                                trait_last: None,
                                trait_disp: None,
                                trait_path: None,
                            };
                            self.function(&m.attrs, &tr.vis, &m.sig, Some(b), m.to_token_stream(), &c2, Some(&info));
                        }
                    }
                }
            }
            syn::Item::Struct(s) => self.type_item(&s.ident, &s.attrs, &s.vis, s.to_token_stream(), cx),
            syn::Item::Enum(s) => self.type_item(&s.ident, &s.attrs, &s.vis, s.to_token_stream(), cx),
            syn::Item::Union(s) => self.type_item(&s.ident, &s.attrs, &s.vis, s.to_token_stream(), cx),
            syn::Item::Type(s) => self.type_item(&s.ident, &s.attrs, &s.vis, s.to_token_stream(), cx),
            syn::Item::Const(k) => {
                if is_test_cfg(&k.attrs) {
                    return;
                }
                let c = Self::with_cfg(cx, &k.attrs);
                self.const_item("const", &k.ident, None, &k.vis, &k.ty, &k.expr, k.to_token_stream(), &c);
            }
            syn::Item::Static(k) => {
                if is_test_cfg(&k.attrs) {
                    return;
                }
                let c = Self::with_cfg(cx, &k.attrs);
                self.const_item("static", &k.ident, None, &k.vis, &k.ty, &k.expr, k.to_token_stream(), &c);
            }
            syn::Item::Macro(m) => {
                if is_test_cfg(&m.attrs) {
                    return;
                }
                let c = Self::with_cfg(cx, &m.attrs);
                let line = m.mac.path.segments.last().map(|s| s.ident.span().start().line).unwrap_or(0);
                let mname = m.mac.path.segments.last().map(|s| s.ident.to_string()).unwrap_or_default();
                let (kind, name, short) = match &m.ident {
                    Some(id) => ("macro", format!("macro:{}!", id), id.to_string()),
                    None => ("macro_call", format!("macro_call:{}!", mname), mname.clone()),
                };
                let mut n = blank(kind, name, short, &c, line);
                n.vis = "pub"; // a macro (call) can define anything: always report it
                let ts = tokens::strip_docs(m.to_token_stream());
                n.hash = sha256::hex(tokens::canon(ts.clone()).as_bytes());
                tokens::scan_stream(ts, &mut n.scan);
                self.krate.nodes.push(n);
            }
            syn::Item::Mod(m) => {
                let name = m.ident.to_string();
                if is_test_cfg(&m.attrs) {
                    if m.content.is_none() {
                        if let Some(p) = self.mod_file(m, path) {
                            self.krate.skipped.push((self.rel(&p), "cfg(test)".to_string()));
                        }
                    }
                    non_doc_attrs(&m.attrs).to_tokens(pre);
                    m.mod_token.to_tokens(pre);
                    m.ident.to_tokens(pre);
                    return;
                }
                let mut c = Self::with_cfg(cx, &m.attrs);
                c.module.push(name.clone());
                match &m.content {
                    Some((_, items)) => {
                        self.krate.modules.insert(name);
                        // the declaration itself (attributes, visibility) belongs to the preamble
                        non_doc_attrs(&m.attrs).to_tokens(pre);
                        m.vis.to_tokens(pre);
                        m.mod_token.to_tokens(pre);
                        m.ident.to_tokens(pre);
                        self.items(items, &c, path, pre);
                    }
                    None => {
                        m.to_tokens(pre);
                        let p = self
                            .mod_file(m, path)
                            .unwrap_or_else(|| fail(&format!("no file for `mod {}` declared in {}", name, path.display())));
                        if name == "verif_hooks" {
                            self.krate.skipped.push((self.rel(&p), "verification hooks".to_string()));
                            return;
                        }
                        self.krate.modules.insert(name);
                        self.file(&p, c.cfg.clone(), c.module.clone());
                    }
                }
            }
            other => other.to_tokens(pre),
        }
    }

    fn mod_file(&self, m: &syn::ItemMod, cur: &Path) -> Option<PathBuf> {
        let dir = cur.parent()?;
        for a in &m.attrs {
            if a.path().is_ident("path") {
                if let syn::Meta::NameValue(nv) = &a.meta {
                    if let syn::Expr::Lit(syn::ExprLit { lit: syn::Lit::Str(s), .. }) = &nv.value {
                        let p = dir.join(s.value());
                        return if p.exists() { Some(p) } else { None };
                    }
                }
            }
        }
        let stem = cur.file_stem()?.to_string_lossy().to_string();
        let base = if stem == "lib" || stem == "main" || stem == "mod" { dir.to_path_buf() } else { dir.join(stem) };
        let name = m.ident.to_string();
        for p in [base.join(format!("{}.rs", name)), base.join(&name).join("mod.rs")] {
            if p.exists() {
                return Some(p);
            }
        }
        None
    }

    fn type_item(&mut self, ident: &syn::Ident, attrs: &[syn::Attribute], vis: &syn::Visibility, ts: TokenStream, cx: &Ctx) {
        if is_test_cfg(attrs) {
            return;
        }
        let c = Self::with_cfg(cx, attrs);
        let mut n = blank("type", format!("type:{}", ident), ident.to_string(), &c, ident.span().start().line);
        n.vis = vis_of(vis);
        let ts = tokens::strip_docs(ts);
        n.hash = sha256::hex(tokens::canon(ts.clone()).as_bytes());
        tokens::scan_stream(ts, &mut n.scan);
        n.scan.calls.clear();
        n.scan.self_args.clear();
        for a in attrs {
            if a.path().is_ident("derive") {
                let _ = a.parse_nested_meta(|m| {
                    if let Some(s) = m.path.segments.last() {
                        n.derives.push(s.ident.to_string());
                    }
                    Ok(())
                });
            }
        }
        self.krate.nodes.push(n);
    }

    #[allow(clippy::too_many_arguments)]
    fn const_item(
        &mut self,
        kind: &'static str,
        ident: &syn::Ident,
        owner: Option<&str>,
        vis: &syn::Visibility,
        ty: &syn::Type,
        expr: &syn::Expr,
        ts: TokenStream,
        cx: &Ctx,
    ) {
        let q = match owner {
            Some(o) => format!("{}::{}", o, ident),
            None => ident.to_string(),
        };
        let mut n = blank(kind, format!("{}:{}", kind, q), ident.to_string(), cx, ident.span().start().line);
        n.vis = vis_of(vis);
        let ts = tokens::strip_docs(ts);
        n.hash = sha256::hex(tokens::canon(ts.clone()).as_bytes());
        tokens::scan_stream(ts, &mut n.scan);
        n.expr = Some(tokens::compact(expr.to_token_stream(), false));
        n.ty = Some(tokens::compact(ty.to_token_stream(), true));
        self.krate.const_exprs.entry(ident.to_string()).or_insert_with(|| expr.clone());
        self.krate.nodes.push(n);
    }

    fn impl_block(&mut self, imp: &syn::ItemImpl, cx: &Ctx) {
        generic_names(&imp.generics, &mut self.krate.generics);
        let info = impl_info(imp);
        if !imp.items.iter().any(|ii| matches!(ii, syn::ImplItem::Fn(_))) && cx.outer.is_none() {
            // marker impls (`Eq`, `FusedIterator`, `Copy`, `ErrorType { type Error = ..; }`): no
            // function to attach the text to, so the block is a node of its own
            let what = match &info.trait_disp {
                Some(t) => format!("impl:<{} as {}>", info.self_disp, t),
                None => format!("impl:{}", info.self_disp),
            };
            let mut n = blank("impl", what, info.self_disp.clone(), cx, imp.impl_token.span.start().line);
            n.vis = "pub";
            n.self_base = info.self_base.clone();
            let ts = tokens::strip_docs(imp.to_token_stream());
            n.hash = sha256::hex(tokens::canon(ts.clone()).as_bytes());
            tokens::scan_stream(ts, &mut n.scan);
            self.krate.nodes.push(n);
        }
        for ii in &imp.items {
            match ii {
                syn::ImplItem::Fn(m) => {
                    if is_test_cfg(&m.attrs) {
                        continue;
                    }
                    let c = Self::with_cfg(cx, &m.attrs);
                    self.function(&m.attrs, &m.vis, &m.sig, Some(&m.block), m.to_token_stream(), &c, Some(&info));
                }
                syn::ImplItem::Const(k) => {
                    let c = Self::with_cfg(cx, &k.attrs);
                    let owner = match &cx.outer {
                        Some(o) => format!("{}::{}", o, info.self_disp),
                        None => info.self_disp.clone(),
                    };
                    self.const_item("const", &k.ident, Some(&owner), &k.vis, &k.ty, &k.expr, k.to_token_stream(), &c);
                }
                _ => {}
            }
        }
        // associated types, and anything else in the impl that is not a function, are folded into
        // the header so that they are covered by the hash of every method of the block
    }

    #[allow(clippy::too_many_arguments)]
    fn function(
        &mut self,
        _attrs: &[syn::Attribute],
        vis: &syn::Visibility,
        sig: &syn::Signature,
        block: Option<&syn::Block>,
        ts: TokenStream,
        cx: &Ctx,
        info: Option<&ImplInfo>,
    ) {
        generic_names(&sig.generics, &mut self.krate.generics);
        let short = sig.ident.to_string();
        let nested = cx.outer.is_some();
        let (kind, base, alt): (&'static str, String, Option<String>) = match (info, &cx.outer) {
            (None, None) => ("fn", short.clone(), Some(format!("{}::{}", cx.module.join("::"), short))),
            (None, Some(o)) => ("nested", format!("{}::{}", o, short), None),
            (Some(i), Some(o)) => ("nested", format!("{}::{}::{}", o, i.self_disp, short), None),
            (Some(i), None) => match (&i.trait_disp, &i.trait_path) {
                (Some(td), Some(tp)) => {
                    let args = td.find('<').map(|k| td[k..].to_string()).unwrap_or_default();
                    (
                        "trait_method",
                        format!("<{} as {}>::{}", i.self_disp, td, short),
                        Some(format!("<{} as {}{}>::{}", i.self_disp, tp.split('<').next().unwrap_or(tp), args, short)),
                    )
                }
                _ => ("method", format!("{}::{}", i.self_disp, short), None),
            },
        };
        let mut n = blank(kind, base.clone(), short, cx, sig.ident.span().start().line);
        n.alt_name = alt;
        n.vis = if nested {
            "private"
        } else if info.map_or(false, |i| i.trait_last.is_some()) {
            "pub"
        } else {
            vis_of(vis)
        };
        if let Some(i) = info {
            n.self_base = i.self_base.clone();
            n.trait_last = i.trait_last.clone();
            n.trait_path = i.trait_path.clone();
        }
        let body = tokens::strip_docs(ts);
        let header = info.map(|i| tokens::strip_docs(i.header.clone())).unwrap_or_default();
        let text = if header.is_empty() {
            tokens::canon(body.clone())
        } else {
            format!("{} {{ {} }}", tokens::canon(header.clone()), tokens::canon(body.clone()))
        };
        n.hash = sha256::hex(text.as_bytes());
        tokens::scan_stream(body, &mut n.scan);
        let mut hs = Scan::default();
        tokens::scan_stream(header, &mut hs);
        n.header_idents = hs.idents;
        n.scan.lits.extend(hs.lits);
        n.by_value_self = matches!(sig.inputs.first(), Some(syn::FnArg::Receiver(r)) if r.reference.is_none());
        n.recv = match sig.receiver() {
            None => "none",
            Some(r) => match &*r.ty {
                syn::Type::Reference(t) if t.mutability.is_some() => "mut",
                syn::Type::Reference(_) => "ref",
                _ => "value",
            },
        };
        n.shared_self_ty = info.map_or(false, |i| i.self_disp.starts_with('&') && !i.self_disp.starts_with("&mut"));
        // nested items (helper fns, helper types with their impls) declared inside the body
        if let Some(b) = block {
            let before = self.krate.nodes.len();
            let mut nc = cx.clone();
            nc.outer = Some(base.clone());
            let mut v = Nested { col: self, cx: nc };
            v.visit_block(b);
            n.children = (before..self.krate.nodes.len()).collect();
            // local consts: evaluate their value
            let mut lc = LocalConsts { vals: Vec::new() };
            lc.visit_block(b);
            for e in lc.vals {
                if let Some(x) = crate::eval_const(&e, &BTreeMap::new(), 0) {
                    if x >= 0 {
                        n.scan.lits.insert(x as u128);
                    }
                }
            }
        }
        self.krate.nodes.push(n);
    }
}

struct Nested<'a> {
    col: &'a mut Collector,
    cx: Ctx,
}

impl<'ast> Visit<'ast> for Nested<'_> {
    fn visit_item(&mut self, it: &'ast syn::Item) {
        match it {
            syn::Item::Fn(f) => {
                if is_test_cfg(&f.attrs) {
                    return;
                }
                let c = Collector::with_cfg(&self.cx, &f.attrs);
                self.col.function(&f.attrs, &f.vis, &f.sig, Some(&f.block), f.to_token_stream(), &c, None);
            }
            syn::Item::Impl(imp) => {
                if is_test_cfg(&imp.attrs) {
                    return;
                }
                let c = Collector::with_cfg(&self.cx, &imp.attrs);
                self.col.impl_block(imp, &c);
            }
            // nested types, consts and macros are covered by the hash of the enclosing function
            _ => {}
        }
    }
}

struct LocalConsts {
    vals: Vec<syn::Expr>,
}

impl<'ast> Visit<'ast> for LocalConsts {
    fn visit_item_const(&mut self, k: &'ast syn::ItemConst) {
        self.vals.push((*k.expr).clone());
    }
    fn visit_impl_item_const(&mut self, k: &'ast syn::ImplItemConst) {
        self.vals.push(k.expr.clone());
    }
}
