//! srcmap <repo>: prints a JSON description of every function-like item of the crate in <repo>/src
//! (name, location, cfg, visibility, canonical-text hash, callees, integer literals, feature flags),
//! plus types, consts, statics, macros, marker impls, file preambles and dead files.
//!
//! Hash: SHA-256 (implemented in sha256.rs; the `sha2` crate is not available offline) of the
//! item's token stream with doc attributes removed, tokens separated by single spaces; methods are
//! prefixed with the header of their impl block.

mod collect;
mod sha256;
mod tokens;

use collect::{fail, Collector, Node};
use std::collections::{BTreeMap, BTreeSet};
use std::path::{Path, PathBuf};
use tokens::Call;

/// Evaluates an integer constant expression (literals, arithmetic, casts, other consts).
pub fn eval_const(e: &syn::Expr, env: &BTreeMap<String, syn::Expr>, depth: usize) -> Option<i128> {
    use syn::{BinOp, Expr, UnOp};
    if depth > 16 {
        return None;
    }
    match e {
        Expr::Lit(l) => match &l.lit {
            syn::Lit::Int(i) => i.base10_digits().parse::<i128>().ok(),
            _ => None,
        },
        Expr::Paren(p) => eval_const(&p.expr, env, depth + 1),
        Expr::Group(p) => eval_const(&p.expr, env, depth + 1),
        Expr::Cast(c) => eval_const(&c.expr, env, depth + 1),
        Expr::Unary(u) => match u.op {
            UnOp::Neg(_) => eval_const(&u.expr, env, depth + 1).and_then(|x| x.checked_neg()),
            _ => None,
        },
        Expr::Binary(b) => {
            let x = eval_const(&b.left, env, depth + 1)?;
            let y = eval_const(&b.right, env, depth + 1)?;
            match b.op {
                BinOp::Add(_) => x.checked_add(y),
                BinOp::Sub(_) => x.checked_sub(y),
                BinOp::Mul(_) => x.checked_mul(y),
                BinOp::Div(_) => x.checked_div(y),
                BinOp::Rem(_) => x.checked_rem(y),
                BinOp::Shl(_) if (0..120).contains(&y) => x.checked_mul(1i128.checked_shl(y as u32)?),
                BinOp::Shr(_) if (0..127).contains(&y) => Some(x >> y),
                BinOp::BitAnd(_) => Some(x & y),
                BinOp::BitOr(_) => Some(x | y),
                BinOp::BitXor(_) => Some(x ^ y),
                _ => None,
            }
        }
        Expr::Path(p) if p.qself.is_none() => {
            let segs: Vec<String> = p.path.segments.iter().map(|s| s.ident.to_string()).collect();
            if segs.len() == 2 {
                let bits: Option<u32> = match segs[0].as_str() {
                    "u8" | "i8" => Some(8),
                    "u16" | "i16" => Some(16),
                    "u32" | "i32" => Some(32),
                    "u64" | "i64" => Some(64),
                    _ => None,
                };
                if let Some(b) = bits {
                    let signed = segs[0].starts_with('i');
                    return match segs[1].as_str() {
                        "BITS" => Some(b as i128),
                        "MAX" => Some(if signed { (1i128 << (b - 1)) - 1 } else { (1i128 << b) - 1 }),
                        "MIN" => Some(if signed { -(1i128 << (b - 1)) } else { 0 }),
                        _ => None,
                    };
                }
            }
            let last = segs.last()?;
            let e2 = env.get(last)?;
            eval_const(e2, env, depth + 1)
        }
        _ => None,
    }
}

/// traits of the std prelude (any edition): their methods are callable everywhere
const PRELUDE_TRAITS: &[&str] = &[
    "Clone", "Copy", "Send", "Sync", "Sized", "Unpin", "Drop", "Fn", "FnMut", "FnOnce", "AsyncFn", "AsyncFnMut",
    "AsyncFnOnce", "AsRef", "AsMut", "Into", "From", "Default", "Iterator", "Extend", "IntoIterator",
    "DoubleEndedIterator", "ExactSizeIterator", "Eq", "Ord", "PartialEq", "PartialOrd", "ToOwned", "ToString",
    "TryFrom", "TryInto", "FromIterator", "IntoFuture", "Future",
];

fn esc(s: &str) -> String {
    let mut o = String::with_capacity(s.len() + 2);
    o.push('"');
    for c in s.chars() {
        match c {
            '"' => o.push_str("\\\""),
            '\\' => o.push_str("\\\\"),
            '\n' => o.push_str("\\n"),
            '\r' => o.push_str("\\r"),
            '\t' => o.push_str("\\t"),
            c if (c as u32) < 0x20 => o.push_str(&format!("\\u{:04x}", c as u32)),
            c => o.push(c),
        }
    }
    o.push('"');
    o
}

fn arr<I: IntoIterator<Item = String>>(it: I) -> String {
    format!("[{}]", it.into_iter().collect::<Vec<_>>().join(", "))
}

fn strs<'a, I: IntoIterator<Item = &'a String>>(it: I) -> String {
    arr(it.into_iter().map(|s| esc(s)))
}

fn is_fn_kind(k: &str) -> bool {
    matches!(k, "fn" | "method" | "trait_method" | "nested")
}

fn variant(n: &Node) -> Option<&'static str> {
    let mut v = None;
    for c in &n.cfg {
        if c.contains("not(feature = \"unstable\")") {
            return Some("stable");
        }
        if c.contains("feature = \"unstable\"") {
            v = Some("unstable");
        }
    }
    v
}

fn dupes(nodes: &[Node]) -> BTreeMap<String, Vec<usize>> {
    let mut m: BTreeMap<String, Vec<usize>> = BTreeMap::new();
    for (i, n) in nodes.iter().enumerate() {
        m.entry(n.name.clone()).or_default().push(i);
    }
    m.retain(|_, v| v.len() > 1);
    m
}

fn disambiguate(nodes: &mut [Node]) {
    // 1. cfg variants of the same item
    for (_, idx) in dupes(nodes) {
        for i in idx {
            if let Some(v) = variant(&nodes[i]) {
                nodes[i].name = format!("{}@{}", nodes[i].name, v);
            }
        }
    }
    // 2. same trait name reached through different paths / same fn name in different modules
    for (_, idx) in dupes(nodes) {
        for i in idx {
            if let Some(a) = nodes[i].alt_name.clone() {
                let suffix = nodes[i].name.find('@').map(|k| nodes[i].name[k..].to_string()).unwrap_or_default();
                nodes[i].name = format!("{}{}", a, suffix);
            }
        }
    }
    // 3. anything left: number them in source order
    for (_, idx) in dupes(nodes) {
        for (k, i) in idx.into_iter().enumerate() {
            if k > 0 {
                nodes[i].name = format!("{}#{}", nodes[i].name, k + 1);
            }
        }
    }
}

fn walk_rs(dir: &Path, out: &mut Vec<PathBuf>) {
    let Ok(rd) = std::fs::read_dir(dir) else { return };
    let mut es: Vec<PathBuf> = rd.filter_map(|e| e.ok().map(|e| e.path())).collect();
    es.sort();
    for p in es {
        if p.is_dir() {
            walk_rs(&p, out);
        } else if p.extension().map_or(false, |e| e == "rs") {
            out.push(p);
        }
    }
}

fn file_hash(p: &Path) -> String {
    let text = std::fs::read_to_string(p).unwrap_or_default();
    match text.parse::<proc_macro2::TokenStream>() {
        Ok(ts) => sha256::hex(tokens::canon(tokens::strip_docs(ts)).as_bytes()),
        Err(_) => sha256::hex(text.as_bytes()),
    }
}

fn main() {
    let args: Vec<String> = std::env::args().collect();
    if args.len() != 2 {
        eprintln!("usage: srcmap <repo>");
        std::process::exit(2);
    }
    if !sha256::self_test() {
        fail("SHA-256 self test failed");
    }
    let repo = PathBuf::from(&args[1]);
    let lib = repo.join("src").join("lib.rs");
    if !lib.exists() {
        fail(&format!("{} does not exist", lib.display()));
    }
    let mut col = Collector::new(&repo);
    col.file(&lib, Vec::new(), Vec::new());
    let mut k = col.krate;
    disambiguate(&mut k.nodes);

    // ---------------------------------------------------------------- dead files
    let mut all = Vec::new();
    walk_rs(&repo.join("src"), &mut all);
    let mut dead = Vec::new();
    for p in &all {
        let rel = p.strip_prefix(&repo).unwrap_or(p).to_string_lossy().to_string();
        if k.visited.contains(&rel) || k.skipped.iter().any(|(f, _)| *f == rel) {
            continue;
        }
        dead.push((rel, file_hash(p)));
    }

    // ---------------------------------------------------------------- indexes
    let nodes = &k.nodes;
    let mut by_short: BTreeMap<&str, Vec<usize>> = BTreeMap::new();
    let mut type_names: BTreeSet<&str> = BTreeSet::new();
    let mut trait_names: BTreeSet<&str> = BTreeSet::new();
    let mut const_by_short: BTreeMap<&str, Vec<usize>> = BTreeMap::new();
    let mut macro_names: BTreeMap<&str, usize> = BTreeMap::new();
    let mut type_idx: BTreeMap<&str, usize> = BTreeMap::new();
    for (i, n) in nodes.iter().enumerate() {
        if is_fn_kind(n.kind) {
            by_short.entry(n.short.as_str()).or_default().push(i);
            if let Some(t) = &n.trait_last {
                trait_names.insert(t.as_str());
            }
            if let Some(s) = &n.self_base {
                type_names.insert(s.as_str());
            }
        }
        match n.kind {
            "type" => {
                type_names.insert(n.short.as_str());
                type_idx.insert(n.short.as_str(), i);
            }
            "const" | "static" => const_by_short.entry(n.short.as_str()).or_default().push(i),
            "macro" => {
                macro_names.insert(n.short.as_str(), i);
            }
            _ => {}
        }
    }
    let file_idx: BTreeMap<&str, usize> =
        nodes.iter().enumerate().filter(|(_, n)| n.kind == "file").map(|(i, n)| (n.file.as_str(), i)).collect();
    // destructor of a type: its own `Drop` impl plus (drop glue) the destructors of the crate
    // types named in its definition, transitively
    let drop_of = |ty: &str| -> Vec<usize> {
        let mut seen: BTreeSet<String> = BTreeSet::new();
        let mut todo = vec![ty.to_string()];
        let mut out = Vec::new();
        while let Some(t) = todo.pop() {
            if !seen.insert(t.clone()) {
                continue;
            }
            for (i, n) in nodes.iter().enumerate() {
                if is_fn_kind(n.kind) && n.trait_last.as_deref() == Some("Drop") && n.self_base.as_deref() == Some(t.as_str()) {
                    out.push(i);
                }
            }
            if let Some(&ti) = type_idx.get(t.as_str()) {
                for id in &nodes[ti].scan.idents {
                    if type_idx.contains_key(id.as_str()) {
                        todo.push(id.clone());
                    }
                }
            }
        }
        out
    };

    // ---------------------------------------------------------------- resolution
    let mut callees: Vec<BTreeSet<usize>> = vec![BTreeSet::new(); nodes.len()];
    let mut refs: Vec<BTreeSet<usize>> = vec![BTreeSet::new(); nodes.len()];
    let mut notes: Vec<BTreeSet<&'static str>> = vec![BTreeSet::new(); nodes.len()];
    // enclosing functions of nested items
    let mut parents: Vec<Vec<usize>> = vec![Vec::new(); nodes.len()];
    for (i, n) in nodes.iter().enumerate() {
        for &c in &n.children {
            parents[c].push(i);
        }
    }
    // traits defined in the crate (`trait` is a keyword: only a trait definition contains it)
    let crate_traits: BTreeSet<&str> =
        nodes.iter().filter(|n| n.kind == "type" && n.scan.idents.contains("trait")).map(|n| n.short.as_str()).collect();
    let in_scope = |i: usize, t: &str| -> bool {
        if PRELUDE_TRAITS.contains(&t) || crate_traits.contains(t) {
            return true;
        }
        let n = &nodes[i];
        let mut here = vec![i];
        here.extend(parents[i].iter().copied());
        if let Some(&f) = file_idx.get(n.file.as_str()) {
            if nodes[f].scan.glob_import {
                return true;
            }
            here.push(f);
        }
        here.iter().any(|&j| nodes[j].scan.idents.contains(t) || nodes[j].header_idents.contains(t) || nodes[j].scan.glob_import)
    };
    for (i, n) in nodes.iter().enumerate() {
        let cands = |f: &str| by_short.get(f).cloned().unwrap_or_default();
        let resolve = |c: &Call| -> Vec<usize> {
            match c {
                Call::Method(f) | Call::SelfMethod(f) => {
                    // a trait method can be called with method syntax only where the trait is in scope
                    let mut v: Vec<usize> = cands(f)
                        .into_iter()
                        .filter(|&j| nodes[j].self_base.is_some())
                        .filter(|&j| match &nodes[j].trait_last {
                            Some(t) if nodes[j].kind == "trait_method" => in_scope(i, t),
                            _ => true,
                        })
                        .collect();
                    // `self.f()`: if the Self type has a method `f`, that is the one that is called
                    if let (Call::SelfMethod(_), Some(sb)) = (c, &n.self_base) {
                        let own = |j: usize| {
                            let b = nodes[j].self_base.as_deref().unwrap_or("");
                            b == sb || k.generics.contains(b)
                        };
                        if v.iter().any(|&j| nodes[j].self_base.as_ref() == Some(sb)) {
                            v.retain(|&j| own(j));
                        }
                    }
                    v
                }
                Call::Bare(f) => cands(f).into_iter().filter(|&j| nodes[j].self_base.is_none()).collect(),
                Call::Path(segs) => {
                    let f = segs.last().map(|s| s.as_str()).unwrap_or("");
                    let q = if segs.len() >= 2 { segs[segs.len() - 2].as_str() } else { "" };
                    let all = cands(f);
                    if q == "<qself>" || k.generics.contains(q) {
                        all.into_iter().filter(|&j| nodes[j].self_base.is_some()).collect()
                    } else if q == "Self" {
                        match &n.self_base {
                            Some(sb) => all.into_iter().filter(|&j| nodes[j].self_base.as_ref() == Some(sb)).collect(),
                            None => all.into_iter().filter(|&j| nodes[j].self_base.is_some()).collect(),
                        }
                    } else if matches!(q, "crate" | "self" | "super") || k.modules.contains(q) {
                        all.into_iter().filter(|&j| nodes[j].self_base.is_none()).collect()
                    } else {
                        // a crate type and/or a trait implemented in the crate (a name can be both)
                        all.into_iter()
                            .filter(|&j| {
                                (type_names.contains(q) && nodes[j].self_base.as_deref() == Some(q))
                                    || (trait_names.contains(q) && nodes[j].trait_last.as_deref() == Some(q))
                            })
                            .collect()
                    }
                }
            }
        };
        if n.kind != "file" && n.kind != "type" {
            for c in &n.scan.calls {
                callees[i].extend(resolve(c));
            }
        }
        // nested helpers are (implicitly, through Drop) used by the enclosing function
        callees[i].extend(n.children.iter().copied());
        // values of crate types created / received / returned here may be dropped here
        if is_fn_kind(n.kind) {
            for id in &n.scan.idents {
                if type_names.contains(id.as_str()) {
                    callees[i].extend(drop_of(id));
                }
            }
            if n.scan.mentions_self_ty || n.by_value_self {
                if let Some(sb) = &n.self_base {
                    callees[i].extend(drop_of(sb));
                }
            }
            // `self` handed to a function that is not defined in this crate (`entries(self)`,
            // `Hash::hash_slice(self, ..)`): any trait impl of the Self type may be called back
            let escapes = n.scan.self_args.iter().any(|c| resolve(c).is_empty() && !matches!(c.last(), "Some" | "Ok" | "Err"));
            if escapes {
                if let Some(sb) = &n.self_base {
                    notes[i].insert("self_escapes");
                    // through a shared reference only `&self` methods (and impls for `&Type`) can be
                    // reached; with `&mut self` / `self` anything can
                    let shared = n.recv == "ref" || (n.recv == "value" && n.shared_self_ty);
                    for (j, m) in nodes.iter().enumerate() {
                        if m.kind == "trait_method"
                            && m.self_base.as_ref() == Some(sb)
                            && (!shared || m.recv == "ref" || m.recv == "none" || m.shared_self_ty)
                        {
                            callees[i].insert(j);
                        }
                    }
                }
            }
        }
        if n.kind == "type" {
            // (destructors are attached to the functions that handle values of the type, not to
            // the definition: nearly every item refers to the definition of `CircularBuffer`)
            for d in &n.derives {
                // the derived impl calls the same trait on the field types
                for (j, m) in nodes.iter().enumerate() {
                    let b = m.self_base.as_deref().unwrap_or("");
                    if m.kind == "trait_method"
                        && m.trait_last.as_deref() == Some(d.as_str())
                        && b != n.short
                        && (n.scan.idents.contains(b) || k.generics.contains(b))
                    {
                        callees[i].insert(j);
                    }
                }
            }
        }
        // references to consts, statics, types, macros, the file preamble
        let idents = n.scan.idents.iter().chain(n.header_idents.iter());
        for id in idents {
            if let Some(v) = const_by_short.get(id.as_str()) {
                refs[i].extend(v.iter().copied().filter(|&j| j != i));
            }
            if let Some(&j) = type_idx.get(id.as_str()) {
                if j != i {
                    refs[i].insert(j);
                }
            }
        }
        for m in &n.scan.macros {
            if let Some(&j) = macro_names.get(m.as_str()) {
                if j != i {
                    refs[i].insert(j);
                }
            }
        }
        if n.kind != "file" {
            if let Some(&j) = file_idx.get(n.file.as_str()) {
                refs[i].insert(j);
            }
        }
        callees[i].remove(&i);
    }
    // self-recursion is a callee too: put it back where the body really mentions its own name
    for (i, n) in nodes.iter().enumerate() {
        if is_fn_kind(n.kind) {
            let me = n.short.as_str();
            let direct = n.scan.calls.iter().any(|c| match c {
                Call::Method(f) | Call::SelfMethod(f) => f == me && n.self_base.is_some(),
                Call::Bare(f) => f == me && n.self_base.is_none(),
                Call::Path(s) => s.last().map(|x| x == me).unwrap_or(false) && s.len() >= 2 && s[s.len() - 2] == "Self",
            });
            if direct {
                callees[i].insert(i);
            }
        }
    }

    // ---------------------------------------------------------------- const values and literal propagation
    let mut values: Vec<Option<i128>> = vec![None; nodes.len()];
    for (i, n) in nodes.iter().enumerate() {
        if n.kind == "const" || n.kind == "static" {
            if let Some(e) = k.const_exprs.get(&n.short) {
                values[i] = eval_const(e, &k.const_exprs, 0);
            }
        }
    }
    let mut lits: Vec<BTreeSet<u128>> = nodes.iter().map(|n| n.scan.lits.clone()).collect();
    for (i, v) in values.iter().enumerate() {
        if let Some(x) = v {
            lits[i].insert(x.unsigned_abs());
        }
    }
    for _ in 0..8 {
        let snap = lits.clone();
        for i in 0..nodes.len() {
            for &j in &refs[i] {
                if matches!(nodes[j].kind, "const" | "static" | "macro") {
                    lits[i].extend(snap[j].iter().copied());
                }
            }
        }
        if snap == lits {
            break;
        }
    }
    // macro bodies contribute their feature flags to the functions that invoke them
    let mut feats: Vec<BTreeSet<&'static str>> = nodes.iter().map(|n| n.scan.feats.clone()).collect();
    for i in 0..nodes.len() {
        for &j in &refs[i] {
            if nodes[j].kind == "macro" {
                let f = nodes[j].scan.feats.clone();
                feats[i].extend(f);
            }
        }
    }

    // ---------------------------------------------------------------- output
    let mut order: Vec<usize> = (0..nodes.len()).collect();
    order.sort_by(|&a, &b| (&nodes[a].file, nodes[a].line, &nodes[a].name).cmp(&(&nodes[b].file, nodes[b].line, &nodes[b].name)));
    let render = |i: usize| -> String {
        let n = &nodes[i];
        let cs: BTreeSet<&String> = callees[i].iter().map(|&j| &nodes[j].name).collect();
        let rs: BTreeSet<&String> = refs[i].iter().map(|&j| &nodes[j].name).collect();
        let mut f = vec![
            format!("\"name\": {}", esc(&n.name)),
            format!("\"kind\": {}", esc(n.kind)),
            format!("\"file\": {}", esc(&n.file)),
            format!("\"line\": {}", n.line),
            format!("\"cfg\": {}", strs(&n.cfg)),
            format!("\"vis\": {}", esc(n.vis)),
            format!("\"hash\": {}", esc(&n.hash)),
            format!("\"callees\": {}", strs(cs)),
            format!("\"refs\": {}", strs(rs)),
            format!("\"literals\": {}", arr(lits[i].iter().map(|x| esc(&x.to_string())))),
            format!("\"features\": {}", arr(feats[i].iter().map(|x| esc(x)))),
        ];
        if !notes[i].is_empty() {
            f.push(format!("\"notes\": {}", arr(notes[i].iter().map(|x| esc(x)))));
        }
        if !n.derives.is_empty() {
            f.push(format!("\"derives\": {}", strs(&n.derives)));
        }
        if n.kind == "const" || n.kind == "static" {
            f.push(format!("\"ty\": {}", esc(n.ty.as_deref().unwrap_or(""))));
            f.push(format!("\"expr\": {}", esc(n.expr.as_deref().unwrap_or(""))));
            f.push(format!(
                "\"value\": {}",
                match values[i] {
                    Some(v) => esc(&v.to_string()),
                    None => "null".to_string(),
                }
            ));
        }
        format!("    {{{}}}", f.join(", "))
    };
    let section = |pred: &dyn Fn(&str) -> bool| -> String {
        let v: Vec<String> = order.iter().copied().filter(|&i| pred(nodes[i].kind)).map(render).collect();
        if v.is_empty() {
            "[]".to_string()
        } else {
            format!("[\n{}\n  ]", v.join(",\n"))
        }
    };
    let mut out = String::new();
    out.push_str("{\n");
    out.push_str(&format!("  \"repo\": {},\n", esc(&repo.to_string_lossy())));
    out.push_str("  \"hash_alg\": \"sha256\",\n");
    out.push_str(&format!("  \"files\": {},\n", strs(&k.visited)));
    out.push_str(&format!(
        "  \"skipped_files\": {},\n",
        arr(k.skipped.iter().map(|(f, w)| format!("{{\"file\": {}, \"why\": {}}}", esc(f), esc(w))))
    ));
    out.push_str(&format!(
        "  \"dead_files\": {},\n",
        arr(dead.iter().map(|(f, h)| format!("{{\"file\": {}, \"hash\": {}}}", esc(f), esc(h))))
    ));
    out.push_str(&format!("  \"items\": {},\n", section(&|k| is_fn_kind(k))));
    out.push_str(&format!("  \"consts\": {},\n", section(&|k| k == "const")));
    out.push_str(&format!("  \"statics\": {},\n", section(&|k| k == "static")));
    out.push_str(&format!("  \"types\": {},\n", section(&|k| k == "type" || k == "impl")));
    out.push_str(&format!("  \"macros\": {},\n", section(&|k| k == "macro" || k == "macro_call")));
    out.push_str(&format!("  \"preambles\": {}\n", section(&|k| k == "file")));
    out.push_str("}\n");
    print!("{}", out);
}
