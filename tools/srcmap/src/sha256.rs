//! SHA-256 (FIPS 180-4), implemented by hand because the `sha2` crate is not in the offline
//! registry cache. Checked in `main` against the standard test vectors before use.

const K: [u32; 64] = [
    0x428a2f98, 0x71374491, 0xb5c0fbcf, 0xe9b5dba5, 0x3956c25b, 0x59f111f1, 0x923f82a4, 0xab1c5ed5,
    0xd807aa98, 0x12835b01, 0x243185be, 0x550c7dc3, 0x72be5d74, 0x80deb1fe, 0x9bdc06a7, 0xc19bf174,
    0xe49b69c1, 0xefbe4786, 0x0fc19dc6, 0x240ca1cc, 0x2de92c6f, 0x4a7484aa, 0x5cb0a9dc, 0x76f988da,
    0x983e5152, 0xa831c66d, 0xb00327c8, 0xbf597fc7, 0xc6e00bf3, 0xd5a79147, 0x06ca6351, 0x14292967,
    0x27b70a85, 0x2e1b2138, 0x4d2c6dfc, 0x53380d13, 0x650a7354, 0x766a0abb, 0x81c2c92e, 0x92722c85,
    0xa2bfe8a1, 0xa81a664b, 0xc24b8b70, 0xc76c51a3, 0xd192e819, 0xd6990624, 0xf40e3585, 0x106aa070,
    0x19a4c116, 0x1e376c08, 0x2748774c, 0x34b0bcb5, 0x391c0cb3, 0x4ed8aa4a, 0x5b9cca4f, 0x682e6ff3,
    0x748f82ee, 0x78a5636f, 0x84c87814, 0x8cc70208, 0x90befffa, 0xa4506ceb, 0xbef9a3f7, 0xc67178f2,
];

pub fn digest(data: &[u8]) -> [u8; 32] {
    let mut h: [u32; 8] = [
        0x6a09e667, 0xbb67ae85, 0x3c6ef372, 0xa54ff53a, 0x510e527f, 0x9b05688c, 0x1f83d9ab, 0x5be0cd19,
    ];
    let mut msg = data.to_vec();
    let bitlen = (data.len() as u64).wrapping_mul(8);
    msg.push(0x80);
    while msg.len() % 64 != 56 {
        msg.push(0);
    }
    msg.extend_from_slice(&bitlen.to_be_bytes());
    for chunk in msg.chunks(64) {
        let mut w = [0u32; 64];
        for i in 0..16 {
            w[i] = u32::from_be_bytes([chunk[4 * i], chunk[4 * i + 1], chunk[4 * i + 2], chunk[4 * i + 3]]);
        }
        for i in 16..64 {
            let s0 = w[i - 15].rotate_right(7) ^ w[i - 15].rotate_right(18) ^ (w[i - 15] >> 3);
            let s1 = w[i - 2].rotate_right(17) ^ w[i - 2].rotate_right(19) ^ (w[i - 2] >> 10);
            w[i] = w[i - 16].wrapping_add(s0).wrapping_add(w[i - 7]).wrapping_add(s1);
        }
        let (mut a, mut b, mut c, mut d, mut e, mut f, mut g, mut hh) =
            (h[0], h[1], h[2], h[3], h[4], h[5], h[6], h[7]);
        for i in 0..64 {
            let s1 = e.rotate_right(6) ^ e.rotate_right(11) ^ e.rotate_right(25);
            let ch = (e & f) ^ (!e & g);
            let t1 = hh.wrapping_add(s1).wrapping_add(ch).wrapping_add(K[i]).wrapping_add(w[i]);
            let s0 = a.rotate_right(2) ^ a.rotate_right(13) ^ a.rotate_right(22);
            let maj = (a & b) ^ (a & c) ^ (b & c);
            let t2 = s0.wrapping_add(maj);
            hh = g;
            g = f;
            f = e;
            e = d.wrapping_add(t1);
            d = c;
            c = b;
            b = a;
            a = t1.wrapping_add(t2);
        }
        for (x, y) in h.iter_mut().zip([a, b, c, d, e, f, g, hh]) {
            *x = x.wrapping_add(y);
        }
    }
    let mut out = [0u8; 32];
    for i in 0..8 {
        out[4 * i..4 * i + 4].copy_from_slice(&h[i].to_be_bytes());
    }
    out
}

pub fn hex(data: &[u8]) -> String {
    let d = digest(data);
    let mut s = String::with_capacity(64);
    for b in d {
        s.push_str(&format!("{:02x}", b));
    }
    s
}

/// Known-answer self test; returns false if the implementation is broken.
pub fn self_test() -> bool {
    hex(b"") == "e3b0c44298fc1c149afbf4c8996fb92427ae41e4649b934ca495991b7852b855"
        && hex(b"abc") == "ba7816bf8f01cfea414140de5dae2223b00361a396177a9cb410ff61f20015ad"
        && hex(b"abcdbcdecdefdefgefghfghighijhijkijkljklmklmnlmnomnopnopq")
            == "248d6a61d20638b8e5c026930c3e6039a33ce45964ff2167f6ecedd419db06c1"
        && hex(&[b'a'; 1000]) == "41edece42d63e8d9bf515a9ba6932e1c20cbc9f5a5d134645adb5db1b9737ea3"
}
