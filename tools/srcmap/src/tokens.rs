//! Token-level utilities: canonical rendering (for hashing), doc stripping, and the token scan that
//! extracts identifiers, integer literals, call sites, macro invocations and feature flags. Working
//! on tokens (not on the syn expression tree) means that macro arguments (`debug_assert!(..)`,
//! `write!(..)`, `vec![..]`) are covered by the very same code as ordinary expressions.

use proc_macro2::{Delimiter, TokenStream, TokenTree};
use std::collections::BTreeSet;

fn is_p(t: Option<&TokenTree>, c: char) -> bool {
    matches!(t, Some(TokenTree::Punct(p)) if p.as_char() == c)
}

fn ident_of(t: Option<&TokenTree>) -> Option<String> {
    match t {
        Some(TokenTree::Ident(i)) => Some(i.to_string()),
        _ => None,
    }
}

/// Removes `#[doc ...]` / `#![doc ...]` attributes (doc comments are lexed as such) at every depth.
pub fn strip_docs(ts: TokenStream) -> TokenStream {
    let v: Vec<TokenTree> = ts.into_iter().collect();
    let mut out: Vec<TokenTree> = Vec::new();
    let mut i = 0;
    while i < v.len() {
        if is_p(v.get(i), '#') {
            let mut j = i + 1;
            if is_p(v.get(j), '!') {
                j += 1;
            }
            if let Some(TokenTree::Group(g)) = v.get(j) {
                if g.delimiter() == Delimiter::Bracket {
                    let first = g.stream().into_iter().next();
                    if ident_of(first.as_ref()).as_deref() == Some("doc") {
                        i = j + 1;
                        continue;
                    }
                }
            }
        }
        match &v[i] {
            TokenTree::Group(g) => {
                let mut ng = proc_macro2::Group::new(g.delimiter(), strip_docs(g.stream()));
                ng.set_span(g.span());
                out.push(TokenTree::Group(ng));
            }
            t => out.push(t.clone()),
        }
        i += 1;
    }
    out.into_iter().collect()
}

fn flat(ts: TokenStream, out: &mut Vec<String>) {
    for t in ts {
        match t {
            TokenTree::Group(g) => {
                let (o, c) = match g.delimiter() {
                    Delimiter::Parenthesis => ("(", ")"),
                    Delimiter::Brace => ("{", "}"),
                    Delimiter::Bracket => ("[", "]"),
                    Delimiter::None => ("", ""),
                };
                if !o.is_empty() {
                    out.push(o.to_string());
                }
                flat(g.stream(), out);
                if !c.is_empty() {
                    out.push(c.to_string());
                }
            }
            TokenTree::Ident(i) => out.push(i.to_string()),
            TokenTree::Punct(p) => out.push(p.as_char().to_string()),
            TokenTree::Literal(l) => out.push(l.to_string()),
        }
    }
}

/// Canonical text: every token (each punctuation character on its own) separated by one space.
pub fn canon(ts: TokenStream) -> String {
    let mut v = Vec::new();
    flat(ts, &mut v);
    v.join(" ")
}

/// Human-readable compact rendering used for names and cfg strings; lifetimes are dropped when
/// `drop_lifetimes` is set.
pub fn compact(ts: TokenStream, drop_lifetimes: bool) -> String {
    let mut v = Vec::new();
    flat(ts, &mut v);
    let mut w: Vec<String> = Vec::new();
    let mut i = 0;
    while i < v.len() {
        if drop_lifetimes && v[i] == "'" && i + 1 < v.len() {
            i += 2;
            // `<'a, T>` -> `<T>`
            if i < v.len() && v[i] == "," {
                i += 1;
            }
            continue;
        }
        w.push(v[i].clone());
        i += 1;
    }
    let word = |s: &str| s.chars().next().map_or(false, |c| c.is_alphanumeric() || c == '_' || c == '"');
    let mut s = String::new();
    for (k, t) in w.iter().enumerate() {
        if k > 0 {
            let p = w[k - 1].as_str();
            let sp = (word(p) && word(t))
                || p == ","
                || p == ";"
                || p == "="
                || t == "="
                || (matches!(p, "mut" | "dyn" | "const" | "impl" | "as") && !matches!(t.as_str(), ")" | "]" | ">" | ","));
            if sp {
                s.push(' ');
            }
        }
        s.push_str(t);
    }
    s
}

#[derive(Clone, Debug, PartialEq, Eq, PartialOrd, Ord)]
pub enum Call {
    /// `x.f(..)`
    Method(String),
    /// `self.f(..)`: the receiver has the `Self` type of the enclosing impl
    SelfMethod(String),
    /// `f(..)` or a bare mention of `f`
    Bare(String),
    /// `a::b::f` (called or merely mentioned); `<T as Trait>::f` has "<qself>" as qualifier
    Path(Vec<String>),
}

impl Call {
    pub fn last(&self) -> &str {
        match self {
            Call::Method(s) | Call::SelfMethod(s) | Call::Bare(s) => s,
            Call::Path(v) => v.last().map(|s| s.as_str()).unwrap_or(""),
        }
    }
}

#[derive(Default, Debug)]
pub struct Scan {
    pub idents: BTreeSet<String>,
    pub lits: BTreeSet<u128>,
    pub calls: BTreeSet<Call>,
    pub macros: BTreeSet<String>,
    pub feats: BTreeSet<&'static str>,
    /// calls that receive `self` / `&self` / `&mut self` / `*self` as an argument
    pub self_args: BTreeSet<Call>,
    pub mentions_self_ty: bool,
    /// a glob import (`use a::b::*`) occurs in the stream
    pub glob_import: bool,
}

const KEYWORDS: &[&str] = &[
    "as", "break", "const", "continue", "crate", "else", "enum", "extern", "false", "fn", "for", "if", "impl", "in",
    "let", "loop", "match", "mod", "move", "mut", "pub", "ref", "return", "static", "struct", "super", "trait", "true",
    "type", "unsafe", "use", "where", "while", "async", "await", "dyn", "self", "Self",
];
const NARROW: &[&str] = &["u8", "u16", "u32", "i8", "i16", "i32"];

fn int_const(ty: &str, what: &str) -> Option<u128> {
    let (bits, signed) = match ty {
        "u8" => (8, false),
        "u16" => (16, false),
        "u32" => (32, false),
        "u64" => (64, false),
        "i8" => (8, true),
        "i16" => (16, true),
        "i32" => (32, true),
        "i64" => (64, true),
        _ => return None,
    };
    match what {
        "BITS" => Some(bits),
        "MAX" => Some(if signed { (1u128 << (bits - 1)) - 1 } else { (1u128 << bits) - 1 }),
        // magnitude of MIN for signed types; 0 for unsigned
        "MIN" => Some(if signed { 1u128 << (bits - 1) } else { 0 }),
        _ => None,
    }
}

pub fn parse_int(l: &proc_macro2::Literal) -> Option<u128> {
    let s = l.to_string();
    if !s.starts_with(|c: char| c.is_ascii_digit()) {
        return None;
    }
    let li: syn::LitInt = syn::parse_str(&s).ok()?;
    li.base10_digits().parse::<u128>().ok()
}

fn lit_at(v: &[TokenTree], i: usize) -> Option<u128> {
    match v.get(i) {
        Some(TokenTree::Literal(l)) => parse_int(l),
        _ => None,
    }
}

/// index of the `<` matching the `>` at `k`, scanning backwards
fn match_angle_back(v: &[TokenTree], k: usize) -> Option<usize> {
    let mut depth = 0i32;
    let mut j = k as isize;
    while j >= 0 {
        let jj = j as usize;
        if is_p(v.get(jj), '>') {
            let arrow = jj > 0 && (is_p(v.get(jj - 1), '-') || is_p(v.get(jj - 1), '='));
            if !arrow {
                depth += 1;
            }
        } else if is_p(v.get(jj), '<') {
            depth -= 1;
            if depth == 0 {
                return Some(jj);
            }
        }
        j -= 1;
    }
    None
}

/// index just after the `>` matching the `<` at `k`
fn match_angle_fwd(v: &[TokenTree], k: usize) -> Option<usize> {
    let mut depth = 0i32;
    let mut j = k;
    while j < v.len() {
        if is_p(v.get(j), '<') {
            depth += 1;
        } else if is_p(v.get(j), '>') {
            let arrow = j > 0 && (is_p(v.get(j - 1), '-') || is_p(v.get(j - 1), '='));
            if !arrow {
                depth -= 1;
                if depth == 0 {
                    return Some(j + 1);
                }
            }
        }
        j += 1;
    }
    None
}

fn is_self_arg(arg: &[TokenTree]) -> bool {
    // self | &self | &mut self | *self | &*self | &mut *self | & 'a self (not valid) ...
    let mut names: Vec<String> = Vec::new();
    for t in arg {
        match t {
            TokenTree::Ident(i) => names.push(i.to_string()),
            TokenTree::Punct(p) if p.as_char() == '&' || p.as_char() == '*' => {}
            _ => return false,
        }
    }
    names == ["self"] || names == ["mut", "self"]
}

fn has_self_arg(g: &proc_macro2::Group) -> bool {
    let v: Vec<TokenTree> = g.stream().into_iter().collect();
    v.split(|t| matches!(t, TokenTree::Punct(p) if p.as_char() == ','))
        .any(|a| !a.is_empty() && is_self_arg(a))
}

pub fn scan_stream(ts: TokenStream, sc: &mut Scan) {
    let v: Vec<TokenTree> = ts.into_iter().collect();
    for i in 0..v.len() {
        match &v[i] {
            TokenTree::Group(g) => scan_stream(g.stream(), sc),
            TokenTree::Punct(p) => {
                if p.as_char() == '*' && i >= 2 && is_p(v.get(i - 1), ':') && is_p(v.get(i - 2), ':') {
                    sc.glob_import = true;
                }
            }
            TokenTree::Literal(l) => {
                let Some(n) = parse_int(l) else { continue };
                // tuple field access `x.0` (but not the range `..0`)
                if i >= 1 && is_p(v.get(i - 1), '.') && !(i >= 2 && is_p(v.get(i - 2), '.')) {
                    continue;
                }
                sc.lits.insert(n);
                // peepholes: `a << b`, `a * b`, `a.pow(b)` with literal operands
                if is_p(v.get(i + 1), '<') && is_p(v.get(i + 2), '<') {
                    if let Some(b) = lit_at(&v, i + 3) {
                        if b < 100 {
                            if let Some(x) = n.checked_shl(b as u32) {
                                if x >> b == n {
                                    sc.lits.insert(x);
                                }
                            }
                        }
                    }
                }
                if is_p(v.get(i + 1), '*') {
                    if let Some(b) = lit_at(&v, i + 2) {
                        if let Some(x) = n.checked_mul(b) {
                            sc.lits.insert(x);
                        }
                    }
                }
                if is_p(v.get(i + 1), '.') && ident_of(v.get(i + 2)).as_deref() == Some("pow") {
                    if let Some(TokenTree::Group(g)) = v.get(i + 3) {
                        let a: Vec<TokenTree> = g.stream().into_iter().collect();
                        if a.len() == 1 {
                            if let Some(b) = lit_at(&a, 0) {
                                if b < 128 {
                                    if let Some(x) = n.checked_pow(b as u32) {
                                        sc.lits.insert(x);
                                    }
                                }
                            }
                        }
                    }
                }
            }
            TokenTree::Ident(id) => {
                let s = id.to_string();
                sc.idents.insert(s.clone());
                if s == "Self" {
                    sc.mentions_self_ty = true;
                }
                if matches!(s.as_str(), "size_of" | "size_of_val" | "align_of" | "align_of_val") {
                    sc.feats.insert("size_of");
                }
                if s == "unsafe" {
                    sc.feats.insert("unsafe");
                }
                if ["wrapping_", "saturating_", "checked_", "overflowing_"].iter().any(|p| s.starts_with(p)) {
                    sc.feats.insert("overflow_arith");
                }
                if s.contains("unchecked") || s == "transmute" || s == "transmute_copy" {
                    sc.feats.insert("unchecked");
                }
                if s == "as" {
                    if let Some(t) = ident_of(v.get(i + 1)) {
                        if NARROW.contains(&t.as_str()) {
                            sc.feats.insert("narrow_cast");
                        }
                    }
                }
                // `u32::MAX` and friends
                if is_p(v.get(i + 1), ':') && is_p(v.get(i + 2), ':') {
                    if let Some(w) = ident_of(v.get(i + 3)) {
                        if let Some(x) = int_const(&s, &w) {
                            sc.lits.insert(x);
                        }
                    }
                }
                // macro invocation
                if is_p(v.get(i + 1), '!') && matches!(v.get(i + 2), Some(TokenTree::Group(_)) | Some(TokenTree::Ident(_))) {
                    sc.macros.insert(s.clone());
                    continue;
                }
                if KEYWORDS.contains(&s.as_str()) {
                    continue;
                }
                // definition, not a use
                if i >= 1 && ident_of(v.get(i - 1)).as_deref() == Some("fn") {
                    continue;
                }
                // lifetime `'a`
                if i >= 1 && is_p(v.get(i - 1), '\'') {
                    continue;
                }
                // is this a call? (possibly with a turbofish)
                let mut j = i + 1;
                if is_p(v.get(j), ':') && is_p(v.get(j + 1), ':') && is_p(v.get(j + 2), '<') {
                    if let Some(e) = match_angle_fwd(&v, j + 2) {
                        j = e;
                    }
                }
                let args = match v.get(j) {
                    Some(TokenTree::Group(g)) if g.delimiter() == Delimiter::Parenthesis => Some(g),
                    _ => None,
                };
                let single_dot = |k: usize| is_p(v.get(k), '.') && !(k >= 1 && is_p(v.get(k - 1), '.'));
                let call = if i >= 1 && single_dot(i - 1) {
                    if args.is_some() {
                        let on_self = i >= 2
                            && ident_of(v.get(i - 2)).as_deref() == Some("self")
                            && !(i >= 3 && (is_p(v.get(i - 3), '.') || is_p(v.get(i - 3), ':')));
                        Some(if on_self { Call::SelfMethod(s.clone()) } else { Call::Method(s.clone()) })
                    } else {
                        None // field access
                    }
                } else if i >= 2 && is_p(v.get(i - 1), ':') && is_p(v.get(i - 2), ':') {
                    let mut segs = vec![s.clone()];
                    let mut k = i as isize - 3;
                    loop {
                        if k < 0 {
                            break;
                        }
                        let ku = k as usize;
                        if let Some(q) = ident_of(v.get(ku)) {
                            segs.push(q);
                            if ku >= 2 && is_p(v.get(ku - 1), ':') && is_p(v.get(ku - 2), ':') {
                                k -= 3;
                                continue;
                            }
                            break;
                        } else if is_p(v.get(ku), '>') {
                            match match_angle_back(&v, ku) {
                                Some(lt) => {
                                    if lt >= 3 && is_p(v.get(lt - 1), ':') && is_p(v.get(lt - 2), ':') {
                                        k = lt as isize - 3; // `Type::<..>::f`
                                        continue;
                                    } else if lt >= 1 && ident_of(v.get(lt - 1)).is_some() {
                                        k = lt as isize - 1; // `Type<..>::f`
                                        continue;
                                    } else {
                                        segs.push("<qself>".to_string());
                                        break;
                                    }
                                }
                                None => {
                                    segs.push("<qself>".to_string());
                                    break;
                                }
                            }
                        } else {
                            break;
                        }
                    }
                    segs.reverse();
                    Some(Call::Path(segs))
                } else {
                    Some(Call::Bare(s.clone()))
                };
                if let Some(c) = call {
                    if let Some(g) = args {
                        if has_self_arg(g) {
                            sc.self_args.insert(c.clone());
                        }
                    }
                    sc.calls.insert(c);
                }
            }
        }
    }
}
