#!/usr/bin/env python3
"""xcheck.py — cross-check of the two evaluators of the Gallina model.

The correspondence check trusts extraction (ExtrOcamlBasic) and ocamlopt. This
tool validates them on every run: the Gallina function `xc_batch`
(coq/theories/XCheck.v) generates test inputs, runs `exec`, `exec_unstable`
and `spec_step` on them and renders the results as lists of numbers. The same
term is evaluated
  (1) inside Coq by the kernel VM:  Eval vm_compute in (xc_batch lo n).
  (2) by the extracted program:     xcheck lo n        (driver/ExtractX.v,
                                                        driver/xcheck_main.ml)
and the two outputs are compared number by number.

    python3 tools/xcheck.py [sample] [seed]      -> JSON result, exit 0 iff ok
    python3 tools/xcheck.py selftest             -> sabotaged extractions must be caught

run(sample=400, seed=1) -> {"ok", "cases", "mismatches", "constructors_covered", "wall_s", ...}
"""
import json
import math
import os
import random
import re
import sys
import time

sys.path.insert(0, os.path.dirname(os.path.abspath(__file__)))
import engine as E          # noqa: E402

DIR = os.path.join(E.CACHE, "xcheck")
THEORIES = os.path.join(E.COQ, "theories")
PER_RANGE = 50


# ---------------------------------------------------------------- builds

def build_vo():
    """theories/XCheck.vo, up to date with respect to every theories/*.v"""
    vo = os.path.join(THEORIES, "XCheck.vo")
    srcs = [os.path.join(THEORIES, f) for f in os.listdir(THEORIES) if f.endswith(".v")]
    if os.path.exists(vo) and os.path.getmtime(vo) >= max(os.path.getmtime(p) for p in srcs):
        return True, vo
    if not os.path.exists(os.path.join(E.COQ, "Makefile")):
        rc, out = E.sh("coq_makefile -f _CoqProject -o Makefile", cwd=E.COQ)
        if rc != 0:
            return False, out
    rc, out = E.sh("timeout 900 make theories/XCheck.vo 2>&1", cwd=E.COQ, timeout=1000)
    return (rc == 0 and os.path.exists(vo)), (vo if rc == 0 else out)


def build_ocaml(extract_v=None, name="ocaml"):
    """extract xc_batch and compile the `xcheck` executable (cached by mtime)"""
    d = os.path.join(DIR, name)
    exe = os.path.join(d, "xcheck")
    ev = extract_v or os.path.join(E.DRIVER_DIR, "ExtractX.v")
    main = os.path.join(E.DRIVER_DIR, "xcheck_main.ml")
    srcs = [THEORIES, ev, main]
    if os.path.exists(exe) and os.path.getmtime(exe) >= E.newest(srcs):
        return True, exe
    os.makedirs(d, exist_ok=True)
    cmd = ("rm -f xcheck xmodel.ml xmodel.mli && cp %s ExtractX.v && cp %s xcheck_main.ml && "
           "timeout 300 coqc -Q %s CB ExtractX.v && "
           "timeout 300 ocamlfind ocamlopt -O3 -w -a xmodel.mli xmodel.ml xcheck_main.ml -o xcheck"
           % (ev, main, THEORIES))
    rc, out = E.sh(cmd, cwd=d, timeout=700)
    return (rc == 0 and os.path.exists(exe)), (exe if rc == 0 else out)


# ---------------------------------------------------------------- sampling

def pick_ranges(K, T, sample, seed, per=PER_RANGE):
    """Seeded index ranges [(lo, n)] with `sample` distinct indices below K.

    k = t + T*q (t: operation template, q: layout). Range i starts at template
    (i*per) mod T of a random layout, so that the ranges tile the template
    table as soon as sample >= T: every constructor of `op` is then reached."""
    rng = random.Random(seed)
    L = max(1, K // T)
    sample = min(sample, K)
    ranges, seen, i, guard = [], set(), 0, 0
    while len(seen) < sample and guard < 100000:
        guard += 1
        off = (i * per) % T
        n = min(per, sample - len(seen))
        q = rng.randrange(L)
        lo = q * T + off
        if lo + n > K:
            continue
        ks = range(lo, lo + n)
        if any(k in seen for k in ks):
            continue
        seen.update(ks)
        ranges.append((lo, n))
        i += 1
    return ranges


# ---------------------------------------------------------------- the Coq side

HEADER = """From Coq Require Import ZArith List.
From CB Require Import XCheck.
Import ListNotations.
Open Scope Z_scope.
Set Printing Width 1000000.
Set Printing Depth 1000000.
"""


def parse_coq(out):
    """the values printed by the `Eval`s of cases_x.v, in order: each
    '= term : type' block becomes nested Python lists of ints"""
    vals = []
    # a block starts at '=' in column <= 6 and ends at the line that starts with ':'
    for m in re.finditer(r"^\s*=\s(.*?)^\s*:\s", out, re.S | re.M):
        t = m.group(1)
        t = re.sub(r"%[A-Za-z_]+", "", t)            # scope suffixes (%Z, %nat)
        t = re.sub(r"\s+", " ", t).strip()           # line wrapping
        t = re.sub(r"\(\s*(-?\d+)\s*\)", r"\1", t)   # (-7)
        t = t.replace("(", "[").replace(")", "]")    # tuples
        t = t.replace(";", ",")
        if not re.fullmatch(r"[\[\]\-0-9, ]*", t):
            raise ValueError("unexpected Coq output: %r" % t[:200])
        vals.append(json.loads(t))
    return vals


def coq_eval(ranges, d):
    src = HEADER + "Eval vm_compute in (xc_count, xc_ntags, xc_ntemplates).\n"
    for lo, n in ranges:
        src += "Eval vm_compute in (xc_batch %d %d).\n" % (lo, n)
    open(os.path.join(d, "cases_x.v"), "w").write(src)
    rc, out = E.sh("timeout 300 coqc -Q %s CB cases_x.v 2>&1" % THEORIES, cwd=d, timeout=330)
    if rc != 0:
        return None, "coqc failed (rc %d): %s" % (rc, out[-2000:])
    try:
        vals = parse_coq(out)
    except ValueError as ex:
        return None, str(ex)
    if len(vals) != len(ranges) + 1:
        return None, "expected %d values from Coq, got %d" % (len(ranges) + 1, len(vals))
    return vals, None


# ---------------------------------------------------------------- the check

def run(sample=400, seed=1, extract_v=None, name="ocaml"):
    t0 = time.time()
    res = {"ok": False, "cases": 0, "mismatches": [], "constructors_covered": [], "wall_s": 0.0}

    def done(err=None):
        if err:
            res["error"] = err
            res["ok"] = False
        res["wall_s"] = round(time.time() - t0, 2)
        return res

    os.makedirs(DIR, exist_ok=True)
    ok, r = build_vo()
    if not ok:
        return done("cannot build XCheck.vo: " + str(r)[-2000:])
    ok, exe = build_ocaml(extract_v, name)
    if not ok:
        return done("cannot build the extracted xcheck: " + str(exe)[-2000:])

    rc, out = E.sh("%s count" % exe, timeout=60)
    try:
        K, ntags, T = [int(x) for x in out.split()]
    except ValueError:
        return done("xcheck count: " + out[-500:])
    ranges = pick_ranges(K, T, sample, seed)
    res.update({"K": K, "templates": T, "ranges": ranges})

    # (1) the kernel VM
    vals, err = coq_eval(ranges, DIR)
    if err:
        return done(err)
    # (2) extraction + ocamlopt
    rc, out = E.sh("timeout 300 %s %s" % (exe, " ".join("%d %d" % r for r in ranges)), timeout=330)
    if rc != 0:
        return done("xcheck failed (rc %d): %s" % (rc, out[-1000:]))
    try:
        olines = [[int(x) for x in ln.split()] for ln in out.split("\n") if ln.strip() != ""]
    except ValueError:
        return done("xcheck printed something that is not a number: " + out[-500:])

    mism, nmis = [], 0
    if vals[0] != [K, ntags, T]:
        nmis += 1
        mism.append(("count", vals[0], [K, ntags, T]))
    ks = [k for lo, n in ranges for k in range(lo, lo + n)]
    clines = [ln for batch in vals[1:] for ln in batch]
    if len(clines) != len(ks) or len(olines) != len(ks):
        nmis += 1
        mism.append(("lines", len(clines), len(olines)))
    tags = set()
    for k, c, o in zip(ks, clines, olines):
        if c:
            tags.add(c[0])
        if c != o or not c:
            nmis += 1
            if len(mism) < 5:
                mism.append((k, c, o))
    res["cases"] = len(set(ks))
    res["mismatches"] = mism
    res["mismatch_count"] = nmis
    res["constructors_covered"] = sorted(tags)
    res["constructors_total"] = ntags
    res["constructors_missing"] = [t for t in range(ntags) if t not in tags]
    res["numbers_compared"] = sum(len(c) for c in clines)
    res["ok"] = nmis == 0 and len(ks) > 0
    return done()


# ---------------------------------------------------------------- self test

SABOTAGE = {
    # every subtraction adds
    "sub": 'Extract Constant Z.sub => "(fun m n -> add m n)".',
    # min returns its second argument
    "min": 'Extract Constant Z.min => "(fun n m -> m)".',
    # the successor of a positive is wrong for one value only (13 -> 15)
    "succ13": 'Extract Constant Pos.succ => "(let rec succ x = match x with '
              '| XI (XO (XI XH)) -> XI (XI (XI XH)) '
              '| XI p -> XO (succ p) | XO p -> XI p | XH -> XO XH in succ)".',
}


def selftest(sample=400, seed=1):
    """the comparison must fail when the extraction is deliberately wrong"""
    os.makedirs(DIR, exist_ok=True)
    base = open(os.path.join(E.DRIVER_DIR, "ExtractX.v")).read()
    out = {}
    for nm, line in SABOTAGE.items():
        p = os.path.join(DIR, "ExtractX_%s.v" % nm)
        src = base.replace('Extraction "xmodel.ml"',
                           'From Coq Require Import ZArith.\n' + line + '\nExtraction "xmodel.ml"')
        if not os.path.exists(p) or open(p).read() != src:
            open(p, "w").write(src)
        r = run(sample, seed, extract_v=p, name="ocaml-" + nm)
        # a crash of the sabotaged program counts; a failure to build it does not
        out[nm] = {"detected": (not r["ok"]) and not r.get("error", "").startswith("cannot build"),
                   "mismatch_count": r.get("mismatch_count"), "error": r.get("error")}
    good = run(sample, seed)
    out["unmodified_ok"] = good["ok"]
    out["ok"] = good["ok"] and all(v["detected"] for k, v in out.items() if isinstance(v, dict))
    return out


if __name__ == "__main__":
    if len(sys.argv) > 1 and sys.argv[1] == "selftest":
        r = selftest()
    else:
        r = run(int(sys.argv[1]) if len(sys.argv) > 1 else 400,
                int(sys.argv[2]) if len(sys.argv) > 2 else 1)
    print(json.dumps(r))
    sys.exit(0 if r["ok"] else 1)
