// expect: fail E0277
// predicts: intoiter_auto_value
// the necessary direction: `T: Sync` alone does not make it Send
#![allow(dead_code, unused_variables, unused_mut, unused_imports)]
use circular_buffer::{CircularBuffer, Drain, IntoIter, Iter, IterMut};
fn assert_send<X: Send>() {}
fn assert_sync<X: Sync>() {}

pub fn send_with_only<T: Sync + 'static>() {
    assert_send::<IntoIter<4, T>>();
}
