// expect: fail E0499
// predicts: borrow_as_mut_slices
// the result of as_mut_slices() keeps the buffer borrowed (mutably)
#![allow(dead_code, unused_variables, unused_mut, unused_imports)]
use circular_buffer::{CircularBuffer, Drain, IntoIter, Iter, IterMut};

pub fn push_while_alive(b: &mut CircularBuffer<4, String>) {
    let view = b.as_mut_slices();
    b.push_back(Default::default());
    drop(view);
}
