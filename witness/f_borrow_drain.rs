// expect: fail E0499
// predicts: borrow_drain
// the result of drain() keeps the buffer borrowed (mutably)
#![allow(dead_code, unused_variables, unused_mut, unused_imports)]
use circular_buffer::{CircularBuffer, Drain, IntoIter, Iter, IterMut};

pub fn push_while_alive(b: &mut CircularBuffer<4, String>) {
    let view = b.drain(..);
    b.push_back(Default::default());
    drop(view);
}
