// expect: fail E0502
// predicts: borrow_front_mut
// the borrow taken by front_mut() is exclusive: not even a shared use while it lives
#![allow(dead_code, unused_variables, unused_mut, unused_imports)]
use circular_buffer::{CircularBuffer, Drain, IntoIter, Iter, IterMut};

pub fn read_while_alive(b: &mut CircularBuffer<4, String>) -> usize {
    let view = b.front_mut();
    let n = b.len();
    drop(view);
    n
}
