// expect: fail E0502
// predicts: borrow_nth_back
// the result of nth_back() keeps the buffer borrowed (shared): no mutation while it lives
#![allow(dead_code, unused_variables, unused_mut, unused_imports)]
use circular_buffer::{CircularBuffer, Drain, IntoIter, Iter, IterMut};

pub fn push_while_alive(b: &mut CircularBuffer<4, String>) {
    let view = b.nth_back(0);
    b.push_back(Default::default());
    drop(view);
}
