// expect: fail E0502
// predicts: borrow_nth_back_mut
// the borrow taken by nth_back_mut() is exclusive: not even a shared use while it lives
#![allow(dead_code, unused_variables, unused_mut, unused_imports)]
use circular_buffer::{CircularBuffer, Drain, IntoIter, Iter, IterMut};

pub fn read_while_alive(b: &mut CircularBuffer<4, String>) -> usize {
    let view = b.nth_back_mut(0);
    let n = b.len();
    drop(view);
    n
}
