// expect: fail lifetime E0308 E0621
// predicts: buffer_covariant_T
// covariant, not bivariant or contravariant: the element lifetime cannot grow
#![allow(dead_code, unused_variables, unused_mut, unused_imports)]
use circular_buffer::{CircularBuffer, Drain, IntoIter, Iter, IterMut};

pub fn lengthen<'a>(b: CircularBuffer<1, &'a str>) -> CircularBuffer<1, &'static str> {
    b
}
