// expect: fail E0277
// predicts: buffer_auto_like_array
#![allow(dead_code, unused_variables, unused_mut, unused_imports)]
use circular_buffer::{CircularBuffer, Drain, IntoIter, Iter, IterMut};
fn assert_send<X: Send>() {}
fn assert_sync<X: Sync>() {}

use std::rc::Rc;
pub fn check() {
    assert_send::<CircularBuffer<4, Rc<u8>>>();
}
