// expect: fail lifetime E0308 E0621
// predicts: drain_covariant_a
// a drain cannot be made to outlive the borrow it was created from
#![allow(dead_code, unused_variables, unused_mut, unused_imports)]
use circular_buffer::{CircularBuffer, Drain, IntoIter, Iter, IterMut};

pub fn lengthen<'s, 'l: 's, T>(d: Drain<'s, 2, T>) -> Drain<'l, 2, T> {
    d
}
