// expect: fail lifetime E0308 E0621
// predicts: drain_covariant_T
// a drain cannot have its element lifetime lengthened
#![allow(dead_code, unused_variables, unused_mut, unused_imports)]
use circular_buffer::{CircularBuffer, Drain, IntoIter, Iter, IterMut};

pub fn lengthen<'a, 'b>(d: Drain<'b, 1, &'a str>) -> Drain<'b, 1, &'static str> {
    d
}
