// expect: fail lifetime E0308 E0621
// predicts: iter_covariant_a
#![allow(dead_code, unused_variables, unused_mut, unused_imports)]
use circular_buffer::{CircularBuffer, Drain, IntoIter, Iter, IterMut};

pub fn lengthen<'s, 'l: 's, T>(i: Iter<'s, T>) -> Iter<'l, T> {
    i
}
