// expect: fail E0277
// predicts: iter_auto_like_shared_slice
// Cell<u8> is Send but not Sync, so &[Cell<u8>] and Iter<Cell<u8>> are not Send
#![allow(dead_code, unused_variables, unused_mut, unused_imports)]
use circular_buffer::{CircularBuffer, Drain, IntoIter, Iter, IterMut};
fn assert_send<X: Send>() {}
fn assert_sync<X: Sync>() {}

use std::cell::Cell;
pub fn check() {
    assert_send::<Iter<'static, Cell<u8>>>();
}
