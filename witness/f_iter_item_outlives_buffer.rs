// expect: fail E0597 E0505 E0515
// predicts: iter_next_item
// but items cannot outlive the buffer
#![allow(dead_code, unused_variables, unused_mut, unused_imports)]
use circular_buffer::{CircularBuffer, Drain, IntoIter, Iter, IterMut};

pub fn dangling() {
    let item;
    {
        let b = CircularBuffer::<4, String>::new();
        item = b.iter().next();
    }
    drop(item);
}
