// expect: fail lifetime E0308 E0621
// predicts: iter_covariant_T
#![allow(dead_code, unused_variables, unused_mut, unused_imports)]
use circular_buffer::{CircularBuffer, Drain, IntoIter, Iter, IterMut};

pub fn lengthen<'a, 'b>(i: Iter<'b, &'a str>) -> Iter<'b, &'static str> {
    i
}
