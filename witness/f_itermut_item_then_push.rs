// expect: fail E0499
// predicts: itermut_next_item
// an item of IterMut keeps the buffer mutably borrowed after the iterator is gone
#![allow(dead_code, unused_variables, unused_mut, unused_imports)]
use circular_buffer::{CircularBuffer, Drain, IntoIter, Iter, IterMut};

pub fn alias(b: &mut CircularBuffer<4, String>) {
    let item = b.iter_mut().next();
    b.push_back(Default::default());
    drop(item);
}
