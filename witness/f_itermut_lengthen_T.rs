// expect: fail lifetime E0308 E0621
// predicts: itermut_invariant_T
#![allow(dead_code, unused_variables, unused_mut, unused_imports)]
use circular_buffer::{CircularBuffer, Drain, IntoIter, Iter, IterMut};

pub fn lengthen<'a, 'b>(i: IterMut<'b, &'a str>) -> IterMut<'b, &'static str> {
    i
}
