// expect: fail lifetime E0308 E0621
// predicts: itermut_invariant_T
// the witness tests/covariance.rs leaves as a TODO: IterMut is NOT covariant in T
// (accepting this would let a short-lived &str be written into a buffer of &'static str)
#![allow(dead_code, unused_variables, unused_mut, unused_imports)]
use circular_buffer::{CircularBuffer, Drain, IntoIter, Iter, IterMut};

pub fn shorten<'a, 'b>(i: IterMut<'b, &'static str>) -> IterMut<'b, &'a str> {
    i
}
