// expect: fail E0597 E0716 E0515 lifetime
// predicts: itermut_invariant_T
// the unsound program that invariance of IterMut exists to reject
#![allow(dead_code, unused_variables, unused_mut, unused_imports)]
use circular_buffer::{CircularBuffer, Drain, IntoIter, Iter, IterMut};

pub fn dangling() -> &'static str {
    let mut buf = CircularBuffer::<1, &'static str>::new();
    buf.push_back("static");
    {
        let local = String::from("short-lived");
        let mut it: IterMut<'_, &str> = buf.iter_mut();
        if let Some(slot) = it.next() {
            *slot = local.as_str();
        }
    }
    buf.pop_front().unwrap()
}
