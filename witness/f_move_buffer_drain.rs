// expect: fail E0505
// predicts: drain_lifetime_tied
// the buffer cannot be moved while a Drain<'_, 4, u8> of it lives
#![allow(dead_code, unused_variables, unused_mut, unused_imports)]
use circular_buffer::{CircularBuffer, Drain, IntoIter, Iter, IterMut};

pub fn move_out(mut b: CircularBuffer<4, u8>) -> CircularBuffer<4, u8> {
    let view = b.drain(..);
    let moved = b;
    drop(view);
    moved
}
