// expect: fail E0505
// predicts: range_lifetime_tied
// the buffer cannot be moved while a Iter<'_, u8> of it lives
#![allow(dead_code, unused_variables, unused_mut, unused_imports)]
use circular_buffer::{CircularBuffer, Drain, IntoIter, Iter, IterMut};

pub fn move_out(mut b: CircularBuffer<4, u8>) -> CircularBuffer<4, u8> {
    let view = b.range(1..);
    let moved = b;
    drop(view);
    moved
}
