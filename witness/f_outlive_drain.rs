// expect: fail E0597
// predicts: drain_lifetime_tied
// a Drain<'_, 4, u8> cannot outlive its buffer
#![allow(dead_code, unused_variables, unused_mut, unused_imports)]
use circular_buffer::{CircularBuffer, Drain, IntoIter, Iter, IterMut};

pub fn outlive() {
    let view;
    {
        let mut b = CircularBuffer::<4, u8>::new();
        view = b.drain(..);
    }
    drop(view);
}
