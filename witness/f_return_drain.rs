// expect: fail E0515 E0597
// predicts: drain_lifetime_tied
// a Drain<'_, 4, u8> of a local buffer cannot be returned
#![allow(dead_code, unused_variables, unused_mut, unused_imports)]
use circular_buffer::{CircularBuffer, Drain, IntoIter, Iter, IterMut};

pub fn escape<'x>() -> Drain<'x, 4, u8> {
    let mut b = CircularBuffer::<4, u8>::new();
    b.drain(..)
}
