// expect: fail E0515 E0597
// predicts: iter_lifetime_tied
// a Iter<'_, u8> of a local buffer cannot be returned
#![allow(dead_code, unused_variables, unused_mut, unused_imports)]
use circular_buffer::{CircularBuffer, Drain, IntoIter, Iter, IterMut};

pub fn escape<'x>() -> Iter<'x, u8> {
    let mut b = CircularBuffer::<4, u8>::new();
    b.iter()
}
