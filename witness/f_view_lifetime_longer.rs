// expect: fail lifetime E0621 E0308
// predicts: drain_lifetime_tied
// and not some unrelated (longer) lifetime
#![allow(dead_code, unused_variables, unused_mut, unused_imports)]
use circular_buffer::{CircularBuffer, Drain, IntoIter, Iter, IterMut};

pub fn drain_of<'x, 'y, const N: usize, T>(b: &'x mut CircularBuffer<N, T>) -> Drain<'y, N, T> {
    b.drain(..)
}
