// expect: pass
// predicts: buffer_auto_value
// the sufficient direction of the computed condition, for EVERY T with the bound
#![allow(dead_code, unused_variables, unused_mut, unused_imports)]
use circular_buffer::{CircularBuffer, Drain, IntoIter, Iter, IterMut};
fn assert_send<X: Send>() {}
fn assert_sync<X: Sync>() {}

pub fn send_when<T: Send + 'static>() {
    assert_send::<CircularBuffer<4, T>>();
}
pub fn sync_when<T: Sync + 'static>() {
    assert_sync::<CircularBuffer<4, T>>();
}
pub fn concrete() {
    assert_send::<CircularBuffer<4, u8>>();
    assert_sync::<CircularBuffer<4, u8>>();
}
