// expect: pass
// predicts: borrow_iter_mut borrow_drain borrow_none_for_owned_results
// mutable borrows end with the view; owned results (pop_front, len) keep no borrow
#![allow(dead_code, unused_variables, unused_mut, unused_imports)]
use circular_buffer::{CircularBuffer, Drain, IntoIter, Iter, IterMut};

pub fn sequential(b: &mut CircularBuffer<4, String>) -> Option<String> {
    for x in b.iter_mut() {
        x.push('!');
    }
    let first = b.drain(..1).next();
    let popped = b.pop_front();
    b.push_back(Default::default());
    let n = b.len();
    drop(popped);
    first
}
