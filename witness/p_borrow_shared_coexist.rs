// expect: pass
// predicts: borrow_iter borrow_range borrow_as_slices borrow_get borrow_front borrow_back borrow_nth_front borrow_nth_back
// the borrows of the read-only views are SHARED (they coexist) and end with the views
#![allow(dead_code, unused_variables, unused_mut, unused_imports)]
use circular_buffer::{CircularBuffer, Drain, IntoIter, Iter, IterMut};

pub fn coexist(b: &mut CircularBuffer<4, String>) -> usize {
    let v1 = b.iter();
    let v2 = b.range(..);
    let v3 = b.as_slices();
    let v4 = b.get(0);
    let v5 = b.front();
    let v6 = b.back();
    let v7 = b.nth_front(0);
    let v8 = b.nth_back(0);
    let n = b.len();
    drop((v1, v2, v3, v4, v5, v6, v7, v8));
    // the borrows have ended: mutation is allowed again
    b.push_back(Default::default());
    n
}
