// expect: pass
// predicts: new_is_const
// new() is callable in const / static items and in a const fn, for any element type
#![allow(dead_code, unused_variables, unused_mut, unused_imports)]
use circular_buffer::{CircularBuffer, Drain, IntoIter, Iter, IterMut};

struct NotCopy(String);
const A: CircularBuffer<4, u32> = CircularBuffer::new();
const B: CircularBuffer<0, NotCopy> = CircularBuffer::new();
const C: CircularBuffer<2, *const u8> = CircularBuffer::new();
static S: CircularBuffer<16, String> = CircularBuffer::new();
pub const fn in_const_fn<const N: usize, T>() -> CircularBuffer<N, T> {
    CircularBuffer::new()
}
