// expect: pass
// predicts: buffer_covariant_T
#![allow(dead_code, unused_variables, unused_mut, unused_imports)]
use circular_buffer::{CircularBuffer, Drain, IntoIter, Iter, IterMut};

pub fn shorten<'a>(b: CircularBuffer<1, &'static str>) -> CircularBuffer<1, &'a str> {
    b
}
