// expect: pass
// predicts: drain_covariant_T
#![allow(dead_code, unused_variables, unused_mut, unused_imports)]
use circular_buffer::{CircularBuffer, Drain, IntoIter, Iter, IterMut};

pub fn shorten<'a, 'b>(d: Drain<'b, 1, &'static str>) -> Drain<'b, 1, &'a str> {
    d
}
