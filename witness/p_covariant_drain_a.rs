// expect: pass
// predicts: drain_covariant_a
#![allow(dead_code, unused_variables, unused_mut, unused_imports)]
use circular_buffer::{CircularBuffer, Drain, IntoIter, Iter, IterMut};

pub fn shorten<'s, 'l: 's, T>(d: Drain<'l, 2, T>) -> Drain<'s, 2, T> {
    d
}
