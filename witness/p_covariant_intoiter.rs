// expect: pass
// predicts: intoiter_covariant_T
#![allow(dead_code, unused_variables, unused_mut, unused_imports)]
use circular_buffer::{CircularBuffer, Drain, IntoIter, Iter, IterMut};

pub fn shorten<'a>(i: IntoIter<1, &'static str>) -> IntoIter<1, &'a str> {
    i
}
