// expect: pass
// predicts: iter_covariant_T
#![allow(dead_code, unused_variables, unused_mut, unused_imports)]
use circular_buffer::{CircularBuffer, Drain, IntoIter, Iter, IterMut};

pub fn shorten<'a, 'b>(i: Iter<'b, &'static str>) -> Iter<'b, &'a str> {
    i
}
