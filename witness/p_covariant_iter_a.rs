// expect: pass
// predicts: iter_covariant_a
#![allow(dead_code, unused_variables, unused_mut, unused_imports)]
use circular_buffer::{CircularBuffer, Drain, IntoIter, Iter, IterMut};

pub fn shorten<'s, 'l: 's, T>(i: Iter<'l, T>) -> Iter<'s, T> {
    i
}
