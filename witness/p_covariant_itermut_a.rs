// expect: pass
// predicts: itermut_covariant_a
#![allow(dead_code, unused_variables, unused_mut, unused_imports)]
use circular_buffer::{CircularBuffer, Drain, IntoIter, Iter, IterMut};

pub fn shorten<'s, 'l: 's, T>(i: IterMut<'l, T>) -> IterMut<'s, T> {
    i
}
