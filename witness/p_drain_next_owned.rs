// expect: pass
// predicts: drain_next_owned
// Drain yields owned elements: they outlive the drain AND the buffer
#![allow(dead_code, unused_variables, unused_mut, unused_imports)]
use circular_buffer::{CircularBuffer, Drain, IntoIter, Iter, IterMut};

pub fn first(b: &mut CircularBuffer<4, String>) -> Option<String> {
    let item: Option<String>;
    {
        let mut d = b.drain(..);
        item = d.next();
    }
    b.push_back(Default::default());
    item
}
pub fn first_owned() -> Option<String> {
    let mut b = CircularBuffer::<4, String>::new();
    let item = b.drain(..).next();
    drop(b);
    item
}
