// expect: pass
// predicts: intoiter_next_owned
#![allow(dead_code, unused_variables, unused_mut, unused_imports)]
use circular_buffer::{CircularBuffer, Drain, IntoIter, Iter, IterMut};

pub fn first(b: CircularBuffer<4, String>) -> Option<String> {
    let mut it: IntoIter<4, String> = b.into_iter();
    let x = it.next();
    drop(it);
    x
}
