// expect: pass
// predicts: iter_clone_unconditional
// Iter is Clone for every T, including T: !Clone
#![allow(dead_code, unused_variables, unused_mut, unused_imports)]
use circular_buffer::{CircularBuffer, Drain, IntoIter, Iter, IterMut};

struct NotClone;
fn assert_clone<X: Clone>() {}
pub fn check<'a, T: 'a>() {
    assert_clone::<Iter<'static, NotClone>>();
    assert_clone::<Iter<'a, T>>();
}
pub fn use_it<'a>(i: &Iter<'a, NotClone>) -> Iter<'a, NotClone> {
    Clone::clone(i)
}
