// expect: pass
// predicts: iter_next_item itermut_next_item
// items carry the lifetime parameter 'a, not a borrow of the iterator value
#![allow(dead_code, unused_variables, unused_mut, unused_imports)]
use circular_buffer::{CircularBuffer, Drain, IntoIter, Iter, IterMut};

pub fn first<'x>(b: &'x CircularBuffer<4, String>) -> Option<&'x String> {
    let mut it = b.iter();
    let x = it.next();
    drop(it);
    x
}
pub fn first_mut<'x>(b: &'x mut CircularBuffer<4, String>) -> Option<&'x mut String> {
    let mut it = b.iter_mut();
    let x = it.next();
    drop(it);
    x
}
pub fn two_at_once(b: &mut CircularBuffer<4, String>) {
    let mut it = b.iter_mut();
    if let (Some(x), Some(y)) = (it.next(), it.next()) {
        core::mem::swap(x, y);
    }
}
