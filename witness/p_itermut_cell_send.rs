// expect: pass
// predicts: itermut_auto_like_mut_slice
// Cell<u8>: Send, so &mut [Cell<u8>], [Cell<u8>; N] and what stands for them are Send
#![allow(dead_code, unused_variables, unused_mut, unused_imports)]
use circular_buffer::{CircularBuffer, Drain, IntoIter, Iter, IterMut};
fn assert_send<X: Send>() {}
fn assert_sync<X: Sync>() {}

use std::cell::Cell;
pub fn check() {
    assert_send::<IterMut<'static, Cell<u8>>>();
    assert_send::<CircularBuffer<4, Cell<u8>>>();
    assert_send::<IntoIter<4, Cell<u8>>>();
}
