// expect: pass
// predicts: iter_lifetime_tied iter_mut_lifetime_tied drain_lifetime_tied
// the view's lifetime parameter is exactly the lifetime of the borrow of the buffer
#![allow(dead_code, unused_variables, unused_mut, unused_imports)]
use circular_buffer::{CircularBuffer, Drain, IntoIter, Iter, IterMut};

pub fn iter_of<'x, const N: usize, T>(b: &'x CircularBuffer<N, T>) -> Iter<'x, T> {
    b.iter()
}
pub fn iter_mut_of<'x, const N: usize, T>(b: &'x mut CircularBuffer<N, T>) -> IterMut<'x, T> {
    b.iter_mut()
}
pub fn drain_of<'x, const N: usize, T>(b: &'x mut CircularBuffer<N, T>) -> Drain<'x, N, T> {
    b.drain(..)
}
